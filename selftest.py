"""Determinism self-test: the same seeds are executed in several fresh processes with
different GOMAXPROCS values; the per-run digests (schedule hash, number of tape draws,
scheduling decisions, simulated duration, verdict) must be identical."""
import os, subprocess, sys, json

ROOT = os.path.dirname(os.path.abspath(__file__))
BIN = os.path.join(ROOT, "bin", "sim.test")


def digests(prop, seed, runs, procs, known):
    env = dict(os.environ, VERIF_PROP=prop, VERIF_SEED=str(seed), VERIF_WORKER="0", VERIF_NWORKERS="1",
               VERIF_MAX_RUNS=str(runs), VERIF_BUDGET_S="600", VERIF_DIGEST="1", VERIF_NO_MINIMISE="1",
               VERIF_MAX_VIOLATIONS="1000", VERIF_KNOWN=known, VERIF_REPLAY_DIR=os.path.join(ROOT, "work", "selftest-replays"),
               GOMAXPROCS=str(procs))
    env.pop("VERIF_OUT", None)
    p = subprocess.run([BIN, "-test.run", "^TestCheck$", "-test.timeout", "0"], env=env, capture_output=True, text=True)
    return [l for l in p.stdout.splitlines() if l.startswith("DIGEST ")], p.returncode


def main(argv):
    props = [a for a in argv if not a.startswith("-")] or ["C17", "C02", "C03", "C04", "C08", "C10", "C09", "C14", "C05", "C06", "C07", "C01", "C11", "C12", "C13", "C19"]
    runs = int(os.environ.get("SELFTEST_RUNS", "12"))
    reps = [(1, 1), (2, 4), (3, 16), (4, 16)]
    bad = 0
    kf = json.load(open(os.path.join(ROOT, "known_findings.json")))
    for prop in props:
        known = ",".join(f["sig"] for f in kf["findings"] if prop in (f["property"] if isinstance(f["property"], list) else [f["property"]]))
        base = None
        for seed in (1, 7):
            ref = None
            for rep, procs in reps:
                d, rc = digests(prop, seed, runs, procs, known)
                if ref is None:
                    ref = d
                    continue
                if d != ref:
                    bad += 1
                    for a, b in zip(ref, d):
                        if a != b:
                            print("NONDETERMINISM %s seed=%d GOMAXPROCS=%d:\n  %s\n  %s" % (prop, seed, procs, a, b))
                            break
                    else:
                        print("NONDETERMINISM %s seed=%d: different number of runs %d vs %d" % (prop, seed, len(ref), len(d)))
            print("%s seed=%d: %d runs x %d processes compared" % (prop, seed, len(ref or []), len(reps)))
    print("selftest:", "FAILED" if bad else "ok")
    return 1 if bad else 0


if __name__ == "__main__":
    sys.exit(main(sys.argv[1:]))
