#!/bin/bash
# dev helper: q.sh <ID> <budget_s> [workers] [tier]  — clean replays of that property and run the check
id=$1; b=${2:-20}; w=${3:-16}; tier=${4:-quick}
cd /verif
rm -f replays/$id-*.json
VERIF_BUDGET_S=$b VERIF_WORKERS=$w VERIF_WATCHDOG_S=${VERIF_WATCHDOG_S:-30} ./verif check $id --tier $tier 2>&1 | cut -c1-1500
echo "rc=${PIPESTATUS[0]}"
