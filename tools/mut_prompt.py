#!/usr/bin/env python3
"""mut_prompt.py <property-id> <name>: print the prompt for a sub-agent that writes seeded changes
(the agent gets the property text and its own worktree only, nothing from /verif)."""
import json, sys
pid, name = sys.argv[1], sys.argv[2]
prop = None
for l in open('/verif/properties.jsonl'):
    p = json.loads(l)
    if p['id'] == pid:
        prop = p
print(f"""You are working on the Go repository codenotary/immudb (an immutable database: append-only tx log, Merkle proofs, B-tree index, MVCC, SQL and document engines, gRPC server).
Your own scratch copy is the git worktree /tmp/mut/{name} (already created). Work ONLY inside it. Never touch /repo. Do not use `git stash` (it is shared between worktrees); use `git diff`, `git apply`, `git checkout -- .` inside your worktree.

Goal: write up to TWO *seeded changes*: small patches to non-test Go source files that each BREAK the semantic property below, while
 (a) the repository still compiles (`go build ./...` in the worktree),
 (b) the existing tests of every package you touch still pass (`go test -mod=mod -vet=off -count=1 ./<pkg>/`; on the unchanged tree these tests already fail because the sandbox runs as root and may be ignored: ahtree TestOpenFail, tbtree TestInvalidOpening, store TestImmudbStoreEdgeCases/should_fail_with_permission_denied, client/cache TestHistoryFileCache_SetMissingFolder, streamutils TestStreamUtilsFiles, sservice TestSservice_IsAdmin),
 (c) the breakage needs something specific to manifest (a particular interleaving, crash point, configuration, history or input shape), i.e. it is the kind of regression a refactoring, an optimisation or a forgotten case could realistically introduce, not a change that fails on every call and not a special case for a magic value,
 (d) each comes with a demonstration: a NEW Go test file that passes on the unchanged tree and fails with the change.

Property {pid}: {prop['title']}
Statement: {prop['statement']}
Holds: {prop['quantifier']['text']}
Code anchors: {', '.join(prop['anchors']['files'])}

Deliverables, per change k in 1..2, in the directory /tmp/mut/out/{name}-k/ (create it):
 - patch.diff : `git diff` of the non-test source change only (must apply with `git apply` on the unchanged tree)
 - the demonstration test file; its first comment lines must be exactly of the form
     // Location: <path of the file relative to the repository root>
     // Run: go test -mod=mod -vet=off -count=1 -run <TestName> ./<pkg>/
 - README.md : what the change is, why it breaks the property, what it takes to manifest, and the commands you ran with their results (build, existing tests of the touched packages with the change, demo with and without the change).
Before finishing: verify each patch with `git apply --check` on the clean worktree, and leave the worktree clean (`git checkout -- .`, delete the demo test files from the worktree).
Environment: no network. Use the default `go` (builds offline with -mod=mod). Tests of big packages take minutes; run only the touched packages. You have about 20 minutes; if the second change is not ready in time, deliver one. If an idea breaks an existing test, drop it and say so in your final message.
Final message: for each change one paragraph (file, what, why it breaks the property, what it needs to manifest, demo result).""")
