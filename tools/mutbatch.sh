#!/bin/bash
# for `vp run --with-repo`: mutbatch.sh <budget_s> <seeded-id>:<ID> ... — run checks against seeded changes applied to the snapshot of /repo, one after the other
b=$1; shift
here=$(pwd)
for m in "$@"; do
  sid=${m%%:*}; id=${m##*:}
  echo "=== $sid vs $id"
  ( cd "$VP_RUN_REPO" && git checkout -q -- . && git apply "$here/seeded/$sid/patch.diff" ) || { echo "patch does not apply"; continue; }
  rm -f replays/$id-*.json
  VERIF_REPO="$VP_RUN_REPO" VERIF_BUDGET_S=$b VERIF_WATCHDOG_S=60 ./verif check $id --tier quick 2>&1 | grep -v "^KNOWN" | cut -c1-600 | head -10
  echo "rc=${PIPESTATUS[0]}"
done
( cd "$VP_RUN_REPO" && git checkout -q -- . )
