#!/bin/bash
# for `vp run --with-repo`: mutrun.sh <patch> <ID> [budget_s] [tier] — run a check against a patched snapshot of /repo
patch=$1; id=$2; b=${3:-90}; tier=${4:-quick}
cd "$VP_RUN_REPO" || exit 2
git apply "$patch" || { echo "patch does not apply"; exit 2; }
cd - >/dev/null
VERIF_REPO="$VP_RUN_REPO" VERIF_BUDGET_S=$b VERIF_WATCHDOG_S=30 ./verif check $id --tier $tier 2>&1 | grep -v "^KNOWN" | cut -c1-500 | head -16
echo "rc=${PIPESTATUS[0]}"
