#!/bin/bash
# dev helper: mut.sh <patch.diff> <ID> [budget_s] [tier] — apply a seeded change to /repo, run the check, undo
patch=$1; id=$2; b=${3:-60}; tier=${4:-quick}
cd /repo || exit 2
if ! git diff --quiet; then echo "repo dirty"; exit 2; fi
git apply "$patch" || { echo "patch does not apply"; exit 2; }
cd /verif
mkdir -p /tmp/mutreplays
VERIF_BUDGET_S=$b VERIF_WATCHDOG_S=${VERIF_WATCHDOG_S:-30} ./verif check $id --tier $tier 2>&1 | grep -v "^KNOWN" | cut -c1-600 | head -${LINES_OUT:-14}
rc=${PIPESTATUS[0]}
echo "rc=$rc"
git -C /repo checkout -- .
# never leave a binary built from the changed tree behind
(cd /verif && ./verif build >/dev/null 2>&1)
# restore the evidence / replays produced on the unchanged tree
git -C /verif checkout -- evidence 2>/dev/null
rm -f /verif/replays/$id-*.json
exit 0
