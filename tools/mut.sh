#!/bin/bash
# dev helper: mut.sh <patch.diff> <ID> [budget_s] [tier] — apply a seeded change to /repo, run the check, undo
patch=$1; id=$2; b=${3:-60}; tier=${4:-quick}
cd /repo || exit 2
if ! git diff --quiet; then echo "repo dirty"; exit 2; fi
git apply "$patch" || { echo "patch does not apply"; exit 2; }
cd /verif
# keep the evidence written on the unchanged tree (also when it is not committed yet)
evsave=$(mktemp -d /dev/shm/evsave.XXXXXX); cp -a /verif/evidence/. "$evsave"/ 2>/dev/null
VERIF_BUDGET_S=$b VERIF_WATCHDOG_S=${VERIF_WATCHDOG_S:-30} ./verif check $id --tier $tier 2>&1 | grep -v "^KNOWN" | cut -c1-600 | head -${LINES_OUT:-14}
rc=${PIPESTATUS[0]}
echo "rc=$rc"
git -C /repo checkout -- .
# never leave a binary built from the changed tree behind
(cd /verif && ./verif build >/dev/null 2>&1)
# restore the evidence / replays produced on the unchanged tree
cp -a "$evsave"/. /verif/evidence/ 2>/dev/null; rm -rf "$evsave"
rm -f /verif/replays/$id-*.json
exit 0
