#!/usr/bin/env python3
"""Generates /verif/MANIFEST.json from the table below (kept next to the checks)."""
import json, subprocess, os

ROOT = os.path.dirname(os.path.dirname(os.path.abspath(__file__)))

BASELINE = json.load(open("/root/.vp/BASELINE.json"))

CHECKS = {
 "C17": dict(
   level="exploration", design="DESIGN.md §7 C17",
   text="Seeded simulation of random operation sequences (append/read/set-offset/flush/sync/discard/copy/close-reopen, with injected write/read/fsync errors) over the real singleapp and multiapp code under an option swarm, compared step by step with an in-memory byte-log model; injected write/fsync/read errors. Sampling, not proof.",
   note="Crash images are not part of this check: the property promises the bytes back after flush and close; crash durability of the same files is decided in C03. Injected write/read/sync errors stay (an operation may fail, never return wrong data). Trusts the byte-log reference model in checks/c17_test.go. True parallelism inside the appendables is not explored (interleavings only at the hook points).",
   technique="deterministic simulation: seeded op sequences + I/O error injection vs reference byte-log model"),
 "C02": dict(
   level="exploration", design="DESIGN.md §7 C02",
   text="Seeded simulation of the real embedded/store: 1-4 concurrent committer tasks (plain, write-only, async, preconditions, cancelled contexts, tx metadata) and a maintenance task (index flush/compaction, Sync, re-reads, proofs) interleaved by the cooperative scheduler at simhook yield points, under a store-option swarm and 1-3 clean close/reopen cycles. Oracle after every cycle and after every reopen: ids dense, every acknowledged tx reads back (ReadTx, ReadValue, ExportTx) exactly as acknowledged, PrevAlh chain, BlRoot equals a reference Merkle root, CommittedAlh is the last tx, dual proofs from acknowledged states verify. Sampling of schedules, not proof.",
   note="Interleavings exist only at the yield points listed in DESIGN.md §4; the ledger is recorded by the harness at acknowledgement time; the reference Merkle tree is checks/merkle_ref_test.go.",
   technique="deterministic simulation: seeded schedules of concurrent committers vs ledger/reference-Merkle oracle"),
 "C04": dict(
   level="exploration", design="DESIGN.md §7 C04",
   text="Same simulated store workload as C02 with the indexer as a scheduled task (yield between reading a bulk and inserting it, so snapshots are arbitrarily stale and flush/compaction/close land mid-bulk) and an indexing-option swarm (bulk size, flush/sync thresholds, node size, cache, buffered-data limits). Oracle after every cycle and reopen: Get, History (both directions, offset/limit), GetBetween and full scans (asc/desc, deleted/expired filtered) equal a key-value model rebuilt from the committed log.",
   note="Default index only (prefixed/mapped indexes are exercised through the SQL checks); full scans and prefix scans (a prefix that is itself a key, a proper prefix of several keys) in both directions; expirations use the simulated clock.",
   technique="deterministic simulation: seeded schedules of writers/indexer/maintenance vs key-value model of the log"),
 "C03": dict(
   level="fault_enumeration", design="DESIGN.md §7 C03",
   text="Record/enumerate: a synced store runs a concurrent workload under the scheduler while the shadow disk records every storage operation (write, fsync, directory sync, create, remove, rename) and an ack marker per returned commit; then crash images are materialised for sampled operation indexes k and persistence modes (process kill; power loss with none / prefix / random subset of un-synced writes, sector-torn writes, un-dirsynced files missing), the real store is opened on each image, a fraction of recoveries is crashed again. Oracle per image: open succeeds, frontier >= highest ack before k, every acknowledged tx byte-identical, chain and BlRoot against the reference Merkle tree, dual proofs from acknowledged states verify, index equals the model of the recovered log, a fresh commit succeeds and chains. The enumeration over k is sampled (10 images per trace in quick, 40 in thorough), not exhaustive.",
   note="Trusts the shadow-disk model (see evidence assumptions). Values of transactions that were never acknowledged may be unreadable after recovery (counted by a probe), never different. Compressed value logs are excluded.",
   technique="deterministic simulation: recorded storage-op trace, crash-point and lost-write enumeration, recovery oracle"),
 "C08": dict(
   level="exploration", design="DESIGN.md §7 C08",
   text="Seeded sequences of append (payloads incl. empty and repeated) / ResetSize / Sync / close-reopen on the real ahtree under an option swarm (sync threshold, 1-slot caches, tiny files); after the steps the whole public surface for sizes up to 40 is compared with a reference Merkle construction written from the definition: Root, RootAt(k), DataAt, InclusionProof and ConsistencyProof for index pairs (all pairs on full verification), verified with the real verifiers and with an independent reference verifier; altered proofs (dropped/extra/flipped/swapped/duplicated terms) and altered claims (shifted i, j, swapped roots, wrong leaf) must be rejected unless the reference verifier accepts the altered claim. htree (per-transaction tree): widths 1..33, all leaves, same reference, altered leaf index/width/terms.",
   note="No crash images (the property lists append/reset-size/sync/reopen/restart); the hash tree's crash recovery is exercised as part of the store in C03. Reference tree and reference inclusion verifier in checks/merkle_ref_test.go. Consistency-proof soundness is checked for altered terms and altered roots only.",
   technique="deterministic simulation: seeded op sequences vs reference Merkle tree + tampered-proof injection"),
 "C10": dict(
   level="exploration", design="DESIGN.md §7 C10",
   text="Seeded operation sequences on the real tbtree under an option swarm (minimal node sizes forcing deep trees and splits, 1-slot cache, flush/sync/buffer thresholds, snapshot limits, compaction threshold, tiny files, snapshot renewal period on the simulated clock): bulk inserts (auto and explicit timestamps), IncreaseTs, flushes with cleanup, Sync, Compact, up to 3 open snapshots read at arbitrary later points, readers with random seek/end/prefix/direction/offset specs, Get, GetBetween, History (both directions, offset/limit), GetWithPrefix, close/reopen. Model: key -> versions, one immutable copy per logical time; a snapshot must keep answering from the state of the logical time it reports (>= the time it was asked to include).",
   note="No crash images (the property speaks of flush, cleanup, compaction and restart; what an index recovers after a crash is decided at store level in C03/C04, where it is rebuilt from the tx log). ReaderSpec.Offset only without history; ReadBetween/IncludeHistory readers are not generated.",
   technique="deterministic simulation: seeded op sequences with concurrent snapshot readers vs multi-version map model with per-timestamp states"),
 "C09": dict(
   level="fault_enumeration", design="DESIGN.md §7 C09",
   text="A small store (2-10 transactions; plain/embedded values, 1-3 value logs, tiny files so that records span chunks, tx metadata, deletes/expirations) is built inside the simulation and closed; then 1-3 bit flips at seeded offsets inside the data region of the tx-log and value-log files are applied to a copy (at rest), or bits are flipped in the bytes returned by file reads while the store is open (live, through the read hook), with and without forcing an index rebuild. Every integrity-checked read is then run under a panic catcher: Open, ReadTx, ReadValue, ReadTxHeader, ExportTx (compared logically with the pristine export), TxReader scan, DualProof, Get+Resolve after indexing. Oracle: error or exactly the committed content; never other data, never a panic, bounded (simulated) time. Sampling of the flip space (6 cases per store in quick, 20 in thorough), not exhaustive.",
   note="Compressed value logs are excluded (a corrupted compressed length makes the reader allocate up to 4 GiB). Header/metadata bytes of the files are not flipped. The read that skips integrity checks (placed in front of the checked reads in some runs, value cache on) is kept rare for the same allocation reason.",
   technique="deterministic simulation: seeded bit-flip fault enumeration (at rest and at read time) vs pristine ledger"),
 "C14": dict(
   level="exploration", design="DESIGN.md §7 C14",
   text="Simulated store with 1-3 value logs and 256-1024 byte chunks; concurrent committers (empty values at a raised rate, small MaxConcurrency, committers starved inside their commit and the opt-in yield while a value log is held, so values land in the value logs far out of id order); then 1-2 rounds of TruncateUptoTx at a seeded cut, optionally two truncations at once, racing with writers and a reader task that keeps re-reading transactions at or after the cut. Oracle after each round and after close/reopen: every transaction at or after the cut reads back value by value as acknowledged; headers, chain, BlRoot, dual proofs and the index (Get/History/scan against the model of the log) intact; every ExportTx terminates (complete and unchanged at or after the cut; complete, by digest or an explicit error before it) and a healthy export still works after a failed one; the store accepts commits afterwards. A run that cannot finish (deadlock, lost wake-up) is a liveness violation with the blocked goroutines listed.",
   note="Layer B (a quarter of the runs): a pkg/database database with a SQL table (CHECK constraint, secondary index), a document collection with an index and plain keys, written by concurrent tasks while a truncator task runs database.NewVlogTruncator(...).TruncateUptoTx (catalog copy + value-log truncation) at seeded cuts; afterwards and after a restart everything written at or after the last cut reads back through Get, SQL and document search, the constraint still rejects, rows are still found through the secondary index, new rows and documents can be written, and ExportTxByID works from the cut on. Not driven: the pkg/truncator retention-period loop (cut points are chosen by the harness, not by the clock).",
   technique="deterministic simulation: seeded schedules of committers/truncation/readers vs ledger oracle + liveness bound"),
 "C05": dict(
   level="exploration", design="DESIGN.md §7 C05",
   text="2-5 tasks run generated transaction programs (Get incl. not-found, ascending/descending range scans over a prefix with inclusive/exclusive seek and early termination, Set, Delete, commit/cancel, read-only transactions) over 7 overlapping keys, together with a write-only committer and index maintenance, interleaved by the scheduler at yield points between operations, between scan steps, inside precommit and at the indexer (arbitrarily stale snapshots). All read results are recorded. Oracle: ids dense and every committed id acknowledged; committed transactions replayed serially in id order against a key-value model: each recorded read (own writes overlaid) must equal the model's answer on the state of ids < n; read-only transactions must have observed one single committed state; conflicted/cancelled transactions leave no trace.",
   note="Operations: Get, range scans in both directions (prefix k, seek key, inclusive/exclusive), Set, Delete, MarkPrefixScanned as first operation (its own oracle: the marked key space must be unchanged at the commit position). Not generated yet: GetWithPrefix with exclusion key, reader Reset/Offset, ReadBetween, SetTransient, a second index. Get on a key deleted earlier by the same transaction returns the transaction's own tombstone; the harness treats it as not found.",
   technique="deterministic simulation: seeded schedules of concurrent tx programs, serial replay in commit order vs KV model"),
 "C06": dict(
   level="exploration", design="DESIGN.md §7 C06",
   text="A real pkg/database.DB (store plus its KV/SQL/document indexers) inside the bubble; 2-5 client tasks issue Set, two-key Set, Set with a precondition (must exist / must not exist / not modified after tx), Delete, Get, Scan and History over 4 keys with unique values while index flush/compaction runs; every call and return is stamped with the simulator's global event sequence number. Oracle (a), exact and polynomial because every write returns its tx id: each read must equal the model at some state between the last write that returned before the read was invoked and the last write invoked before it returned; a conditional write must have been applied iff its precondition holds on the state immediately preceding it in commit order (a refused one must have been false in some state of its interval). Oracle (b): porcupine (CheckOperationsTimeout, 10 s) on the per-key register histories of single-key operations; Illegal is a violation, Unknown is counted as inconclusive.",
   note="Operations: Set, multi-key Set, the same batch through ExecAll, conditional Set (three precondition kinds), Delete, Get, Get at the transaction of an earlier write, GetAll, Scan, History; flush/compaction interleaved. Not generated yet: SetReference, ZAdd/ZScan, Count, Get with SinceTx/AtRevision. Transient 'limit exceeded' / 'read conflict' errors of writes are treated as no-effect failures.",
   technique="deterministic simulation: seeded concurrent client histories, tx-id interval check + porcupine linearizability"),
 "C07": dict(
   level="exploration", design="DESIGN.md §7 C07 (layer A)",
   text="Store-level replication in one bubble: a primary store builds a history with concurrent committers (tx metadata, empty values, header v0/v1, optionally truncated so that old transactions are exported by digest); the messages are ExportTx(i); 1-3 replica worker tasks deliver them to ReplicateTx out of order inside the concurrency window, duplicated, retried after (simulated) time-outs, with and without integrity-check skipping, interleaved with altered copies (bit flips, truncation, trailer and length-field edits, appended bytes), replica close/reopen and DiscardPrecommittedTxsSince. Oracle: no panic; an altered message is rejected or leaves exactly the primary's transaction; duplicates report 'already committed'; once faults stop the replica reaches the primary's frontier (liveness bound); every replicated transaction has the primary's id, header, entries, values (digests when truncated) and Alh; the replica's index answers like the model of the primary's history and its dual proofs verify against the primary's states.",
   note="Two layers. A (store level): exported transactions delivered lost/duplicated/reordered/altered by worker tasks. B (30% of the runs, pkg/database level): synchronous replication with 1-2 acks and 1-2 replicas, the replicator's protocol spoken by harness tasks with the real API on both sides (CurrentState, ExportTxByID with replica state, ReplicateTx, AllowCommitUpto, DiscardPrecommittedTxsSince), lossy/duplicating/altering network, replica restarts; invariants: committed on the primary => durably precommitted on enough replicas, replica never ahead of nor different from the primary, convergence. NOT driven: pkg/replication.TxReplicator itself (goroutines, gRPC streams, retry timers) and the server's stream handlers.",
   technique="deterministic simulation: seeded delivery schedules + altered-message injection vs primary ledger"),
 "C01": dict(
   level="exploration", design="DESIGN.md §7 C01",
   text="An honest store builds histories under the simulator (concurrent committers, tx metadata, header v0/v1, deletes, restarts between requests). For sampled pairs trusted tx i <= proven tx j the client-side verification is run on the server's response: DualProof and DualProofV2 must verify against the states acknowledged to the client (completeness) and the per-entry inclusion proofs must verify against the entries hash. A tampering adversary on the response path then alters one aspect per trial — claimed states and ids, every header field of source/target, inclusion/consistency/last-inclusion terms (dropped, extra, flipped, swapped, duplicated), TargetBlTxAlh, linear and linear-advance proofs, swapped source/target, entry key/value/position — and a forked server (shares a prefix of the history, then diverges) answers instead of the honest one. Oracle: acceptance implies truth — a response that verifies must claim exactly the history's states with the new one extending the trusted one; an altered entry must never verify.",
   note="Two layers. A (store level): DualProof/DualProofV2/linear/inclusion proofs of histories built by concurrent committers, verified against every trusted state, tampered single fields and forked servers. B (10% of the runs): the real pkg/client against a real server over in-bubble gRPC with a tampering interceptor (alters one field of a Verifiable*/ProofDocument response or replays an older one): VerifiedSet/Get/GetAt/TxByID/SetReference, client restarts, a lagging second client, document proofs via pkg/verification.VerifyDocument. Not covered: histories whose binary linking lags (the store never produces them: seeded change c01c-1 is missed), state signatures, SQL row proofs (VerifyRow), streams; freshness is not claimed (a replayed authentic older version verifies by design).",
   technique="deterministic simulation: seeded histories + tampered/forked response injection vs ledger (acceptance implies truth)"),
 "C11": dict(
   level="exploration", design="DESIGN.md §7 C11",
   text="sql.Engine over the simulated store; one table with indexes on (a), (b), (a,c) created before or after the data; a DML session (upsert, update of indexed columns, delete), index flush/compaction and restart run as tasks while the secondary indexers lag by arbitrary amounts (yield between reading a bulk and inserting it, bulk sizes 1-8); a query task issues metamorphic groups at arbitrary points, also inside an open transaction holding uncommitted changes: the same WHERE clause through the default plan and through every index (USE INDEX ON), ternary-logic partitioning (P, NOT P, P IS NULL partition the table), ORDER BY ASC/DESC (same multiset, sorted with NULL first).",
   note="Two tables; joins only INNER with one extra conjunct, compared with a nested-loop join computed by the harness; ORDER BY on one column (leading or non-leading index column); no GROUP BY / subqueries / LIMIT-OFFSET / historical queries yet; predicates from a fixed family of 14 shapes with seeded constants.",
   technique="deterministic simulation: metamorphic query groups under seeded indexer lag, maintenance and restarts"),
 "C12": dict(
   level="exploration", design="DESIGN.md §7 C12",
   text="2-4 concurrent SQL sessions (autocommit statements and multi-statement transactions) issue INSERT / UPSERT / INSERT ON CONFLICT DO NOTHING / UPDATE (also of the unique column) / DELETE with values that violate PRIMARY KEY, UNIQUE, NOT NULL, VARCHAR length and CHECK constraints at a raised rate, a DDL task may create the unique index while they run, an auto-increment table is filled concurrently. A checker task during the run, and the harness after it and after a restart, scans the committed tables: no duplicate primary key, no duplicate value in the unique index (single-column on t(a); composite on u(p, q), exercised by INSERT/UPSERT/UPDATE of either column/DELETE), no NULL in NOT NULL columns, lengths and CHECK satisfied, scans through every index return the same rows as the primary-key scan, auto-generated keys never handed out twice.",
   note="Column add/drop/rename are not generated. DDL inside a transaction only as ALTER TABLE DROP CONSTRAINT followed by rollback.",
   technique="deterministic simulation: seeded concurrent sessions, invariant scan of committed tables"),
 "C13": dict(
   level="exploration", design="DESIGN.md §7 C13",
   text="2-4 session tasks run generated explicit transactions (INSERT/UPDATE/DELETE/SELECT, COMMIT or ROLLBACK, SAVEPOINT + ROLLBACK TO SAVEPOINT) over one table, plus an observer outside any transaction. A reference interpreter replays the committed transactions serially in commit order: every in-transaction SELECT must equal interpreter(state before the transaction + own earlier statements), affected-row counts must match, the final table must equal the serial execution (rolled back and failed transactions leave no trace), the observer only ever sees states after a prefix of the committed transactions, and transactions that did not commit saw a committed state plus their own changes.",
   note="Two layers. A (85% of the runs): embedded/sql engine API, concurrent session tasks under the scheduler, savepoints. B (15%): the server's session transaction API over in-bubble gRPC (NewTx / TxSQLExec / TxSQLQuery / Commit / Rollback on a real ImmuServer), sessions advanced one statement at a time in seeded order, sessions closed or expired by the simulated clock in the middle of a transaction; same oracle (serial replay against the reference interpreter, no trace of what did not commit, COMMIT after the session ended must fail); each session may hold a read-only transaction next to its read-write one (begun and ended independently, its queries must show one committed state); a second table with an AUTO_INCREMENT key takes single- and multi-row inserts, and the total of affected rows and the generated key reported by COMMIT are compared with the serial execution and the rows found afterwards. Not driven: the PostgreSQL wire front-end, DDL inside transactions (except C12's rolled-back DROP CONSTRAINT), RELEASE SAVEPOINT, per-statement affected-row counts in layer B (TxSQLExec does not return them).",
   technique="deterministic simulation: seeded concurrent session programs vs reference interpreter, serial replay in commit order"),
 "C18": dict(
   level="exploration", design="DESIGN.md §7 C18",
   text="A real ImmuServer with authentication on (system, default and three user databases; a system administrator and users holding Admin, RW, R and no permission on db1) runs inside the bubble and is driven over real gRPC (bufconn) with its own interceptor chain. Every method found in the three registered service descriptors (ImmuService unary and streaming, DocumentService, AuthorizationService: 93 methods, enumerated at run time so a newly added RPC is included or the check reports that it has no classification) is called, in seeded order, for a seeded cell = (user, selected database: own / other / systemdb / none, credentials: session or legacy token, credential state: valid, none, garbage, closed/logged out, expired by inactivity (simulated clock + session guard), token expired (simulated clock), user deactivated after login, permission revoked after login, permission changed after login). Oracle, derived from the statement and one-directional (stricter than required is fine): a method whose minimum level (none / authenticated / R / RW / Admin; writes on systemdb refused for everyone) exceeds the caller's, or any method needing credentials when their state is not valid, must return an error, deliver no message on a stream, and leave the fingerprint (committed state of systemdb, defaultdb and the three user databases, or the reason it is unreadable) unchanged; ListUsers and DatabaseList(V2) must not show users or databases beyond the caller's rights; request templates are valid requests (the same templates succeed for sufficiently privileged callers, counted per run).",
   note="One client, sequential requests: a permission change racing with an in-flight request is not explored. Session expiry by maximum age, database unload while a session is open, SQL privileges (ChangeSQLPrivileges / per-statement privileges), the pgwire front-end and the REST gateway are not driven. Requests are well-formed enough that 85 of the 93 methods are served to authorised callers (a probe per method in the evidence says which); never served to anyone, so a missing gate there would only show through its effects: OpenSession / Login (wrong password on purpose), TruncateDatabase (no data older than the minimum retention period), UpdateAuthConfig / UpdateMTLSConfig (not supported by the server), replicateTx (no replica database). Transaction calls (TxSQLExec / TxSQLQuery / Commit / Rollback) refer to a transaction the session opened while its credentials were still good.",
   technique="deterministic simulation: real server over in-bubble gRPC, simulated clock for session/token expiry, seeded cells of the method x role x database x credential-state matrix"),
 "C19": dict(
   level="exploration", design="DESIGN.md §7 C19",
   text="document.Engine over the simulated store: a writer task inserts, replaces and deletes documents (nested JSON, lists, unicode, missing numeric field) in twin collections — one with indexes on the queried fields and a unique index, one without — while the indexers lag by arbitrary amounts and index flush/compaction and restarts are interleaved; duplicates for the unique field are attempted. Oracle after the workload and after restart, against an in-memory list of the documents: id lookup and searches (comparisons, AND / OR groups, nested path) return exactly the stored documents that satisfy the filter with all fields unchanged, counts agree, the twins answer identically (index independence), the unique index admits no duplicate, the audit trail lists every revision in order.",
   note="ProofDocument/VerifyDocument are driven in C01 layer B, not here. Ordering/paging, AddField/RemoveField and index creation/removal over time are not driven yet.",
   technique="deterministic simulation: seeded document histories under indexer lag/restarts vs in-memory JSON list, twin collections"),
}

NOT_APPLICABLE = [
 dict(property_id="C15", reason="pure functions of their input (codecs, key encodings): no schedule, clock, fault or second party to simulate; deciding it is property-based testing/SMT, not deterministic simulation (DESIGN.md §8)"),
 dict(property_id="C16", reason="totality of pure decoders over all byte strings is a fuzzing target; the part that meets a fault (altered replicated bytes, corrupted disk bytes) is covered inside C07 and C09 (DESIGN.md §8)"),
]

def hook_commits():
    out = subprocess.run(["git", "-C", "/repo", "log", "--format=%H %s"], capture_output=True, text=True).stdout
    return [l.split()[0] for l in out.splitlines() if " verif hooks:" in l]

def main():
    checks = []
    for pid in sorted(CHECKS):
        c = CHECKS[pid]
        checks.append({
            "property_id": pid,
            "quick_cmd": "./verif check %s --tier quick" % pid,
            "thorough_cmd": "./verif check %s --tier thorough" % pid,
            "evidence_file": "/verif/evidence/%s.json" % pid,
            "replay_cmd_template": "./verif replay {path}",
            "engine": "sim",
            "level_claimed": {"category": c["level"], "text": c["text"], "design_ref": c["design"]},
            "level_note": c["note"],
            "technique": c["technique"],
        })
    claimed = set(CHECKS)
    props = [json.loads(l)["id"] for l in open(os.path.join(ROOT, "properties.jsonl"))]
    na = [n for n in NOT_APPLICABLE]
    for p in props:
        if p not in claimed and p not in {n["property_id"] for n in na}:
            na.append(dict(property_id=p, reason="not claimed: in scope for simulation (session expiry by simulated clock, permission changes racing with requests) and designed in DESIGN.md §7, but the server harness (direct dispatch of every RPC through the interceptor chain) was not built in the time available; no check exists, so nothing is claimed"))
    m = {
        "version": 1,
        "setup_cmd": "./verif build",
        "hooks": {
            "guard": "verif (Go build tag)",
            "enable": "go1.26.8 test -c -tags verif (the harness module replaces github.com/codenotary/immudb with /repo)",
            "baseline_off_cmd": BASELINE["cmd"],
            "source_commits": hook_commits(),
            "add_only": False,
        },
        "engines": [{"name": "sim", "path": "/verif/sim", "serves_properties": sorted(claimed),
                     "kind_free_text": "deterministic simulation: tape (one seed), cooperative scheduler in a testing/synctest bubble, shadow disk with crash images, tape minimiser, replay files"}],
        "checks": checks,
        "not_applicable": na,
        "notes": "Exit 0 = held on everything explored (KNOWN-FINDING lines for findings listed in known_findings.json); exit 1 + VIOLATION line = violation with replay file; exit 2 = build or simulator trouble. VERIF_SEED selects the base seed, VERIF_BUDGET_S overrides the wall-clock budget.",
    }
    json.dump(m, open(os.path.join(ROOT, "MANIFEST.json"), "w"), indent=1)
    print("wrote MANIFEST.json with", len(checks), "checks")

main()
