#!/bin/bash
# for `vp run`: seeds.sh <seed> <ID>... — quick tier of the given checks with another base seed
seed=$1; shift
for id in "$@"; do
  echo "=== $id seed=$seed"
  VERIF_SEED=$seed VERIF_WATCHDOG_S=90 ./verif check $id --tier quick 2>&1 | grep -v "^KNOWN" | cut -c1-500 | head -8
  echo "rc=${PIPESTATUS[0]}"
done
