#!/bin/bash
# detseed.sh <ID> <worker> <index> [rounds]: run one seed 16x concurrently per round with the schedule trace on and group identical traces
id=$1; w=$2; i=$3; rounds=${4:-3}
cd /verif
kn=$(python3 -c "
import json
kf=json.load(open('known_findings.json'))
print(','.join(f['sig'] for f in kf['findings'] if '$id' in (f['property'] if isinstance(f['property'],list) else [f['property']])))")
mkdir -p work/detseed; rm -f work/detseed/*
for r in $(seq 1 $rounds); do
  for k in $(seq 0 15); do
    VERIF_TRACE_SCHED=1 VERIF_STORE_LOG=1 VERIF_DUMP_LOG=1 VERIF_PROP=$id VERIF_TIER=quick VERIF_SEED=${VERIF_SEED:-1} VERIF_WORKER=$w VERIF_NWORKERS=16 VERIF_START_INDEX=$i VERIF_MAX_RUNS=1 VERIF_BUDGET_S=3000 \
    VERIF_DIGEST=1 VERIF_NO_MINIMISE=1 VERIF_NO_CONFIRM=1 VERIF_KNOWN="$kn" VERIF_REPLAY_DIR=/verif/work/detdiff-replays \
    bin/sim.test -test.run '^TestCheck$' -test.timeout 0 2>&1 | sed 's#/dev/shm/verifsim-[0-9]*#SCR#g' > work/detseed/$r-$k.txt &
  done
  wait
done
md5sum work/detseed/*.txt | awk '{print $1}' | sort | uniq -c
