#!/usr/bin/env python3
"""keep_mut.py <outdir> <property> <seeded-id> "<needs>" "<caught-by>"

Confirms a seeded change in a scratch worktree of /repo (outside /repo and /verif):
the patch applies and builds, the demonstration fails with it and passes without it;
then stores it as /verif/seeded/<seeded-id>/ (patch.diff, demonstration, meta.json).
"""
import json, os, re, shutil, subprocess, sys

out, prop, sid, needs, caught = sys.argv[1:6]
wt = "/tmp/mutconfirm"
subprocess.run(["git", "-C", "/repo", "worktree", "remove", "--force", wt], capture_output=True)
subprocess.run(["git", "-C", "/repo", "worktree", "add", "-q", wt, "HEAD"], check=True)
log = []
try:
    demos = [f for f in os.listdir(out) if f.endswith("_test.go") or f.endswith(".go")]
    placed = []
    runs = []
    for d in demos:
        txt = open(os.path.join(out, d)).read()
        m = re.search(r"[Ll]ocation(?: in the repository)?:\s*(\S+)", txt) or re.search(r"Place this file at:\s*(\S+)", txt) or re.search(r"(?:goes|go) (?:in|to|under)\s+(\S+\.go)", txt)
        if not m:
            m2 = re.search(r"(\S+/)\s*$", "")
        loc = m.group(1) if m else None
        if loc is None:
            print("cannot find location comment in", d)
            sys.exit(1)
        if loc.endswith("/"):
            loc = loc + d
        dst = os.path.join(wt, loc)
        os.makedirs(os.path.dirname(dst), exist_ok=True)
        shutil.copyfile(os.path.join(out, d), dst)
        placed.append(loc)
        m = re.search(r"(go test [^\n]*)", txt)
        if m:
            runs.append(m.group(1).strip())
    runs = list(dict.fromkeys(runs))
    if not runs:
        print("no run command found")
        sys.exit(1)

    def run_all():
        ok = True
        for c in runs:
            p = subprocess.run(c, shell=True, cwd=wt, capture_output=True, text=True)
            log.append("$ %s -> rc=%d" % (c, p.returncode))
            ok = ok and p.returncode == 0
        return ok

    clean_ok = run_all()
    p = subprocess.run(["git", "apply", os.path.join(out, "patch.diff")], cwd=wt, capture_output=True, text=True)
    if p.returncode != 0:
        print("patch does not apply:", p.stderr)
        sys.exit(1)
    b = subprocess.run("go build ./...", shell=True, cwd=wt, capture_output=True, text=True)
    log.append("$ go build ./... (with change) -> rc=%d" % b.returncode)
    mut_ok = run_all()
    print("\n".join(log))
    print("demo passes on unchanged tree:", clean_ok, "| demo passes with change:", mut_ok, "| builds:", b.returncode == 0)
    if not (clean_ok and not mut_ok and b.returncode == 0):
        print("NOT CONFIRMED")
        sys.exit(1)
    dstdir = os.path.join("/verif/seeded", sid)
    os.makedirs(dstdir, exist_ok=True)
    shutil.copyfile(os.path.join(out, "patch.diff"), os.path.join(dstdir, "patch.diff"))
    for d in demos:
        shutil.copyfile(os.path.join(out, d), os.path.join(dstdir, d))
    readme = ""
    if os.path.exists(os.path.join(out, "README.md")):
        readme = open(os.path.join(out, "README.md")).read()
        shutil.copyfile(os.path.join(out, "README.md"), os.path.join(dstdir, "README.md"))
    meta = {
        "id": sid, "breaks_property": prop, "needs_to_manifest": needs,
        "demonstration": placed, "confirmed": log + ["demo passes on unchanged tree, fails with the change; change builds"],
        "existing_tests": "run by the author of the change on the touched packages (see README.md)",
        "caught_by": caught,
    }
    json.dump(meta, open(os.path.join(dstdir, "meta.json"), "w"), indent=1)
    print("stored", dstdir)
finally:
    subprocess.run(["git", "-C", "/repo", "worktree", "remove", "--force", wt], capture_output=True)
