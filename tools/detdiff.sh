#!/bin/bash
# detdiff.sh <ID> <runs-per-worker> : run the 16 worker slices concurrently twice (CPU contention as in a
# real check) and diff the per-seed digests; prints the seeds whose digests differ.
id=$1; n=${2:-1000}
cd /verif
kn=$(python3 -c "
import json
kf=json.load(open('known_findings.json'))
print(','.join(f['sig'] for f in kf['findings'] if '$id' in (f['property'] if isinstance(f['property'],list) else [f['property']])))")
for rep in a b; do
  for w in $(seq 0 15); do
    VERIF_PROP=$id VERIF_TIER=quick VERIF_SEED=${VERIF_SEED:-1} VERIF_WORKER=$w VERIF_NWORKERS=16 VERIF_START_INDEX=${START:-0} VERIF_MAX_RUNS=$n VERIF_BUDGET_S=3000 \
    VERIF_DIGEST=1 VERIF_NO_MINIMISE=1 VERIF_NO_CONFIRM=1 VERIF_MAX_VIOLATIONS=100000 VERIF_KNOWN="$kn" VERIF_REPLAY_DIR=/verif/work/detdiff-replays \
    bin/sim.test -test.run '^TestCheck$' -test.timeout 0 2>&1 | grep '^DIGEST' > work/detdiff-$id-$rep-$w.txt &
  done
  wait
  cat work/detdiff-$id-$rep-*.txt | sort > work/detdiff-$id-$rep.txt
  rm -f work/detdiff-$id-$rep-*.txt
done
echo "runs: $(wc -l < work/detdiff-$id-a.txt) / $(wc -l < work/detdiff-$id-b.txt)"
diff work/detdiff-$id-a.txt work/detdiff-$id-b.txt | head -${SHOW:-20}
echo "violations seen: $(grep -v 'viol=-' work/detdiff-$id-a.txt | wc -l) / $(grep -v 'viol=-' work/detdiff-$id-b.txt | wc -l)"
