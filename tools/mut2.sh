#!/bin/bash
# mut2.sh <patch.diff> <ID> [budget_s] [workers]: run a check against a patched scratch worktree of /repo (outside /repo and /verif),
# leaving /repo itself untouched (safe while other runs rebuild from /repo). Evidence and replays of the unchanged tree are restored.
patch=$(realpath "$1"); id=$2; b=${3:-60}; w=${4:-8}
wt=/tmp/mutrepo-$$
git -C /repo worktree add -q --detach "$wt" HEAD || exit 2
( cd "$wt" && git apply "$patch" ) || { echo "patch does not apply"; git -C /repo worktree remove --force "$wt"; exit 2; }
cd /verif
VERIF_REPO="$wt" VERIF_BUDGET_S=$b VERIF_WORKERS=$w ./verif check $id --tier quick 2>&1 | grep -v "^KNOWN" | cut -c1-600 | head -${LINES_OUT:-12}
echo "rc=${PIPESTATUS[0]}"
git -C /verif checkout -- evidence 2>/dev/null
rm -f /verif/replays/$id-*.json
git -C /repo worktree remove --force "$wt"
( cd /verif && ./verif build >/dev/null 2>&1 )
