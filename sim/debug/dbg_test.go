package debug

import (
	"fmt"
	"os"
	"testing"

	"github.com/codenotary/immudb/embedded/store"
)

func TestDbg(t *testing.T) {
	dir := os.Getenv("DBG_DIR")
	opts := store.DefaultOptions().WithSynced(true).WithFileSize(256).WithCompressionFormat(3).WithMaxKeyLen(64).WithMaxValueLen(1024).WithMaxTxEntries(16)
	st, err := store.Open(dir, opts)
	if err != nil {
		t.Fatal(err)
	}
	defer st.Close()
	fmt.Println("sync:", st.Sync())
	n, _ := st.CommittedAlh()
	fmt.Println("committed", n)
	tx := store.NewTx(16, 64)
	for id := uint64(1); id <= n; id++ {
		if err := st.ReadTx(id, false, tx); err != nil {
			fmt.Println("readtx", id, err)
			continue
		}
		for i, e := range tx.Entries() {
			v, err := st.ReadValue(e)
			fmt.Printf("tx %d entry %d key %s vlen %d voff %d(%#x) -> %d bytes err=%v\n", id, i, e.Key(), e.VLen(), e.VOff(), e.VOff(), len(v), err)
		}
	}
}
