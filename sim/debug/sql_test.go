package debug

import (
	"context"
	"fmt"
	"testing"

	"github.com/codenotary/immudb/embedded/sql"
	"github.com/codenotary/immudb/embedded/store"
)

func TestSQLUnique(t *testing.T) {
	st, err := store.Open(t.TempDir(), store.DefaultOptions().WithMultiIndexing(true))
	if err != nil {
		t.Fatal(err)
	}
	defer st.Close()
	eng, _ := sql.NewEngine(st, sql.DefaultOptions().WithPrefix([]byte("sql")))
	ex := func(q string) {
		_, _, err := eng.Exec(context.Background(), nil, q, nil)
		fmt.Println(q, "->", err)
	}
	ex("CREATE TABLE t (id INTEGER, a INTEGER, PRIMARY KEY id)")
	ex("CREATE UNIQUE INDEX ON t(a)")
	ex("INSERT INTO t (id, a) VALUES (2, 0)")
	ex("DELETE FROM t WHERE id = 2")
	ex("INSERT INTO t (id, a) VALUES (4, 0)")
	ex("INSERT INTO t (id, a) VALUES (5, 0)")
	ex("INSERT INTO t (id, a) VALUES (1, 0)")
}
