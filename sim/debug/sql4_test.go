package debug

import (
	"context"
	"fmt"
	"testing"

	"github.com/codenotary/immudb/embedded/sql"
	"github.com/codenotary/immudb/embedded/store"
)

func TestSQLFloatUnique(t *testing.T) {
	st, _ := store.Open(t.TempDir(), store.DefaultOptions().WithMultiIndexing(true))
	defer st.Close()
	eng, _ := sql.NewEngine(st, sql.DefaultOptions().WithPrefix([]byte("sql")))
	ex := func(q string) {
		_, _, err := eng.Exec(context.Background(), nil, q, nil)
		fmt.Println(q, "->", err)
	}
	ex("CREATE TABLE t (id INTEGER AUTO_INCREMENT, u FLOAT, PRIMARY KEY id)")
	ex("CREATE UNIQUE INDEX ON t(u)")
	ex("INSERT INTO t (u) VALUES (1.0)")
	ex("INSERT INTO t (u) VALUES (1.0)")
	ex("CREATE TABLE t2 (id VARCHAR[32], u FLOAT, PRIMARY KEY id)")
	ex("CREATE UNIQUE INDEX ON t2(u)")
	ex("INSERT INTO t2 (id, u) VALUES ('a', 1.0)")
	ex("INSERT INTO t2 (id, u) VALUES ('b', 1.0)")
}
