package debug

import (
	"fmt"
	"testing"

	"github.com/codenotary/immudb/embedded/tbtree"
)

func TestTB(t *testing.T) {
	opts := tbtree.DefaultOptions().WithMaxKeySize(8).WithMaxValueSize(8).WithMaxNodeSize(74).WithCacheSize(1).
		WithFlushThld(100000).WithSyncThld(100000).WithMaxBufferedDataSize(64).WithFileSize(256).WithFlushBufferSize(256)
	tb, err := tbtree.Open(t.TempDir(), opts)
	if err != nil {
		t.Fatal(err)
	}
	defer tb.Close()
	k2 := []byte("\xff\xff")
	k3 := []byte("\xff\xff\xff")
	ins := func(ts uint64, kvs ...*tbtree.KVT) {
		for _, kv := range kvs {
			kv.T = ts
		}
		if err := tb.BulkInsert(kvs); err != nil {
			t.Fatal(err)
		}
	}
	ins(1, &tbtree.KVT{K: k2, V: []byte("1")})
	ins(2, &tbtree.KVT{K: k3, V: []byte("2")}, &tbtree.KVT{K: k2, V: []byte("3")})
	for ts := uint64(3); ts <= 10; ts++ {
		ins(ts, &tbtree.KVT{K: k3, V: []byte(fmt.Sprintf("v%d", ts))})
		v, vts, hc, err := tb.GetBetween(k3, 1, 1)
		fmt.Printf("after ts %d: GetBetween(k3,1,1) = %q ts=%d hc=%d err=%v\n", ts, v, vts, hc, err)
	}
	tvs, hc, err := tb.History(k3, 0, false, 20)
	fmt.Println("history k3:", hc, err)
	for _, tv := range tvs {
		fmt.Printf("  %q@%d\n", tv.Value, tv.Ts)
	}
	tvs, hc, err = tb.History(k2, 0, false, 20)
	fmt.Println("history k2:", hc, err)
	for _, tv := range tvs {
		fmt.Printf("  %q@%d\n", tv.Value, tv.Ts)
	}
}
