package debug

import (
	"context"
	"fmt"
	"testing"

	"github.com/codenotary/immudb/embedded/sql"
	"github.com/codenotary/immudb/embedded/store"
)

func TestSQLStaleIndex(t *testing.T) {
	st, err := store.Open(t.TempDir(), store.DefaultOptions().WithMultiIndexing(true))
	if err != nil {
		t.Fatal(err)
	}
	defer st.Close()
	eng, _ := sql.NewEngine(st, sql.DefaultOptions().WithPrefix([]byte("sql")))
	ex := func(q string) {
		_, _, err := eng.Exec(context.Background(), nil, q, nil)
		fmt.Println(q, "->", err)
	}
	qr := func(q string) {
		rd, err := eng.Query(context.Background(), nil, q, nil)
		if err != nil {
			fmt.Println(q, "-> ERR", err)
			return
		}
		defer rd.Close()
		var out []string
		for {
			row, err := rd.Read(context.Background())
			if err != nil {
				break
			}
			s := ""
			for _, v := range row.ValuesByPosition {
				s += fmt.Sprint(v.RawValue()) + "|"
			}
			out = append(out, s)
		}
		fmt.Println(q, "->", out)
	}
	ex("CREATE TABLE t (id INTEGER, a INTEGER, b VARCHAR[8], c INTEGER, PRIMARY KEY id)")
	ex("CREATE INDEX ON t(a)")
	ex("UPSERT INTO t (id, a, b, c) VALUES (0, 4, 'x', NULL)")
	ex("UPSERT INTO t (id, a, b, c) VALUES (0, NULL, 'zz', NULL)")
	qr("SELECT id, a, b, c FROM t WHERE a > 0")
	qr("SELECT id, a, b, c FROM t USE INDEX ON (a) WHERE a > 0")
	qr("SELECT id, a, b, c FROM t USE INDEX ON (a)")
}
