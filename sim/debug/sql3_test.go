package debug

import (
	"context"
	"fmt"
	"testing"

	"github.com/codenotary/immudb/embedded/sql"
	"github.com/codenotary/immudb/embedded/store"
)

func TestSQLFloatNull(t *testing.T) {
	st, _ := store.Open(t.TempDir(), store.DefaultOptions().WithMultiIndexing(true))
	defer st.Close()
	eng, _ := sql.NewEngine(st, sql.DefaultOptions().WithPrefix([]byte("sql")))
	ex := func(q string) {
		_, _, err := eng.Exec(context.Background(), nil, q, nil)
		fmt.Println(q, "->", err)
	}
	qr := func(q string) {
		rd, err := eng.Query(context.Background(), nil, q, nil)
		if err != nil {
			fmt.Println(q, "-> ERR", err)
			return
		}
		defer rd.Close()
		var out []string
		for {
			row, err := rd.Read(context.Background())
			if err != nil {
				break
			}
			s := ""
			for _, v := range row.ValuesByPosition {
				s += fmt.Sprint(v.RawValue()) + "|"
			}
			out = append(out, s)
		}
		fmt.Println(q, "->", out)
	}
	ex("CREATE TABLE t (id INTEGER, n FLOAT, s VARCHAR[10], PRIMARY KEY id)")
	ex("CREATE INDEX ON t(n)")
	ex("INSERT INTO t (id, n, s) VALUES (1, NULL, 'alpha')")
	ex("INSERT INTO t (id, n, s) VALUES (2, 3.0, 'alpha')")
	qr("SELECT id, n FROM t WHERE n < 0 AND s = 'alpha'")
	qr("SELECT id, n FROM t USE INDEX ON (n) WHERE n < 0 AND s = 'alpha'")
	qr("SELECT id, n FROM t WHERE n < 0")
	qr("SELECT id, n FROM t USE INDEX ON (n) WHERE n < 5")
	qr("SELECT id, n FROM t WHERE n < 5")
	qr("SELECT id, n FROM t USE INDEX ON (n) WHERE n < 5.0")
	qr("SELECT id, n FROM t WHERE n < 5.0")
	qr("SELECT id, n FROM t USE INDEX ON (n)")
}
