// Package simcore is the deterministic simulation core: one seed decides every
// choice (tape), a cooperative scheduler decides which task runs (sched), a
// shadow disk decides what survives a crash (disk).
package simcore

import (
	"hash/fnv"
	"sync"
)

// Tape is the single source of randomness of a run. It is split into named
// streams (gen, sched, fault, crash, ...) so that minimising one stream does
// not shift the values drawn from another. Every stream is a splitmix64
// sequence derived from (seed, stream name). In replay mode the values are
// read back from the recorded tape; when a recorded stream is exhausted the
// draw returns 0, which every generator treats as its simplest choice.
type Tape struct {
	mu      sync.Mutex
	seed    uint64
	streams map[string]*stream
	replay  map[string][]uint32 // nil => generate
}

type stream struct {
	state uint64
	rec   []uint32
	pos   int
}

func NewTape(seed uint64) *Tape {
	return &Tape{seed: seed, streams: map[string]*stream{}}
}

// NewReplayTape builds a tape that replays the given recorded streams.
func NewReplayTape(seed uint64, rec map[string][]uint32) *Tape {
	t := NewTape(seed)
	t.replay = rec
	if t.replay == nil {
		t.replay = map[string][]uint32{}
	}
	return t
}

func splitmix(x *uint64) uint64 {
	*x += 0x9e3779b97f4a7c15
	z := *x
	z = (z ^ (z >> 30)) * 0xbf58476d1ce4e5b9
	z = (z ^ (z >> 27)) * 0x94d049bb133111eb
	return z ^ (z >> 31)
}

func (t *Tape) stream(name string) *stream {
	s, ok := t.streams[name]
	if !ok {
		h := fnv.New64a()
		h.Write([]byte(name))
		st := t.seed ^ h.Sum64()
		splitmix(&st)
		s = &stream{state: st}
		t.streams[name] = s
	}
	return s
}

// Intn draws a value in [0,n) from the named stream. n<=1 draws nothing.
func (t *Tape) Intn(streamName string, n int) int {
	if n <= 1 {
		return 0
	}
	t.mu.Lock()
	defer t.mu.Unlock()
	s := t.stream(streamName)
	var v uint32
	if t.replay != nil {
		r := t.replay[streamName]
		if s.pos < len(r) {
			v = r[s.pos] % uint32(n)
		}
		s.pos++
	} else {
		v = uint32(splitmix(&s.state)>>33) % uint32(n)
	}
	s.rec = append(s.rec, v)
	return int(v)
}

// Recorded returns a copy of everything drawn so far, per stream.
func (t *Tape) Recorded() map[string][]uint32 {
	t.mu.Lock()
	defer t.mu.Unlock()
	out := map[string][]uint32{}
	for name, s := range t.streams {
		out[name] = append([]uint32(nil), s.rec...)
	}
	return out
}

// Draws returns the number of values drawn so far over all streams.
func (t *Tape) Draws() int {
	t.mu.Lock()
	defer t.mu.Unlock()
	n := 0
	for _, s := range t.streams {
		n += len(s.rec)
	}
	return n
}
