package simcore

import (
	"context"
	"crypto/sha256"
	"encoding/binary"
	"encoding/hex"
	"encoding/json"
	"fmt"
	"hash/fnv"
	"os"
	"path/filepath"
	"runtime"
	"runtime/debug"
	"sort"
	"strings"
	"sync"
	"sync/atomic"
	"testing"
	"testing/synctest"
	"time"

	"github.com/codenotary/immudb/embedded/simhook"
)

// Check is one property check: Body is one simulated run.
type Check struct {
	ID string
	// Bubble: run Body as task "main" inside a synctest bubble under the
	// scheduler (fake clock, scheduled goroutines).
	Bubble bool
	// FreeRun (with Bubble): no cooperative scheduler, only the bubble's fake
	// clock; for checks whose only client is the body itself.
	FreeRun bool
	// AltBody, AltPct: a second layer of the same property, run instead of Body in
	// AltPct percent of the runs (drawn from the tape, so replay takes the same
	// branch), as a free run (fake clock only).
	AltBody func(r *Run)
	AltPct  int
	// AltSched: run AltBody under the cooperative scheduler (like Body) instead of free
	AltSched bool
	// Body executes one simulated run. All choices come from r.
	Body func(r *Run)
	// Liveness: a stuck run is a violation of this property (otherwise it is
	// simulator trouble).
	Liveness bool
}

// Violation describes a property violation found in a run.
type Violation struct {
	Class string `json:"class"` // oracle clause, stable across seeds
	Sig   string `json:"sig"`   // structural signature for known-finding matching
	Msg   string `json:"msg"`
}

type stopRun struct{}

// Run is the context of one simulated run.
type Run struct {
	Check  *Check
	Seed   uint64
	Params map[string]int64
	Tier   string

	tape  *Tape
	Sched *Sched
	Disk  *Disk

	mu         sync.Mutex
	log        []string
	logDropped int
	onStop     []func()
	logSkipped int64
	viol       *Violation
	probes     map[string]int
	faults     map[string]int
	sigH       uint64
	schedH     uint64
	switches   int
	nontrivial bool
	sample     interface{}
	traceSched bool
	dirs       []string
	scratch    string
	seq        int64
	simStart   time.Time
	simDur     time.Duration
	trouble    string
	cleanup    []func()
	findings   map[string]string
	findingsN  map[string]int
	ended      bool
}

var knownSigs = func() map[string]bool {
	m := map[string]bool{}
	for _, s := range strings.Split(os.Getenv("VERIF_KNOWN"), ",") {
		if s = strings.TrimSpace(s); s != "" {
			m[s] = true
		}
	}
	return m
}()

// Known reports whether sig is listed as a known finding (the launcher passes
// the list from /verif/known_findings.json).
func (r *Run) Known(sig string) bool { return knownSigs[sig] }

// Finding handles an observed defect with structural signature sig: if it is
// a listed known finding the occurrence is recorded and the run continues
// (the caller adapts its model); otherwise it is a violation and the run
// aborts.
func (r *Run) Finding(class, sig, format string, args ...interface{}) {
	if !knownSigs[sig] {
		r.Violation(class, sig, format, args...)
	}
	r.mu.Lock()
	if r.findings == nil {
		r.findings = map[string]string{}
		r.findingsN = map[string]int{}
	}
	if _, ok := r.findings[sig]; !ok {
		r.findings[sig] = fmt.Sprintf(format, args...)
	}
	r.findingsN[sig]++
	r.mu.Unlock()
}

// Intn draws from the workload-generation stream.
func (r *Run) Intn(n int) int { return r.tape.Intn("gen", n) }

// IntnS draws from a named stream.
func (r *Run) IntnS(stream string, n int) int { return r.tape.Intn(stream, n) }

// Bool draws a boolean (false is the simple choice).
func (r *Run) Bool() bool { return r.Intn(2) == 1 }

// Pct is true with probability p percent.
func (r *Run) Pct(p int) bool { return r.Intn(100) < p }

// Bytes draws n bytes.
func (r *Run) Bytes(n int) []byte {
	b := make([]byte, n)
	for i := range b {
		b[i] = byte(r.Intn(256))
	}
	return b
}

// Pick draws one of the given ints.
func (r *Run) Pick(vals ...int) int { return vals[r.Intn(len(vals))] }

// Param returns a replay parameter or def.
func (r *Run) Param(name string, def int64) int64 {
	if v, ok := r.Params[name]; ok {
		return v
	}
	return def
}

// SetParam records a parameter in the scenario (so that a replay takes the
// same value).
func (r *Run) SetParam(name string, v int64) {
	r.mu.Lock()
	defer r.mu.Unlock()
	if r.Params == nil {
		r.Params = map[string]int64{}
	}
	r.Params[name] = v
}

// Ctx returns a background context.
func (r *Run) Ctx() context.Context { return context.Background() }

// Seq returns the next global event sequence number.
func (r *Run) Seq() int64 {
	r.mu.Lock()
	defer r.mu.Unlock()
	r.seq++
	return r.seq
}

// Logf appends a line to the run's event trace. It never draws from the tape
// nor reads a real clock.
func (r *Run) Logf(format string, args ...interface{}) {
	progress.Add(1) // a run without the scheduler still shows the watchdog that it is alive
	r.mu.Lock()
	defer r.mu.Unlock()
	if logSkip > 0 && r.logSkipped < logSkip {
		// debugging aid for replays: drop the first VERIF_LOG_SKIP lines instead of the last ones
		r.logSkipped++
		return
	}
	if len(r.log) >= 4000 {
		r.logDropped++
		return
	}
	r.log = append(r.log, fmt.Sprintf(format, args...))
}

// Probe counts that a rare-but-interesting condition was reached.
func (r *Run) Probe(name string) {
	r.mu.Lock()
	r.probes[name]++
	r.mu.Unlock()
}

// Fault counts that a fault of the given kind actually fired.
func (r *Run) Fault(kind string) {
	r.mu.Lock()
	r.faults[kind]++
	r.nontrivial = true
	r.mu.Unlock()
}

// Sig mixes a structural feature of the run into its distinctness signature.
func (r *Run) Sig(parts ...interface{}) {
	h := fnv.New64a()
	fmt.Fprint(h, parts...)
	r.mu.Lock()
	r.sigH = r.sigH*1099511628211 ^ h.Sum64()
	r.mu.Unlock()
}

// Nontrivial marks the run as non-trivial by the check's stated rule.
func (r *Run) Nontrivial() {
	r.mu.Lock()
	r.nontrivial = true
	r.mu.Unlock()
}

// Sample sets the written-out sample describing this run.
func (r *Run) Sample(v interface{}) {
	r.mu.Lock()
	r.sample = v
	r.mu.Unlock()
}

func (r *Run) schedHash(id, point string) {
	h := fnv.New64a()
	h.Write([]byte(id))
	h.Write([]byte(point))
	r.schedH = r.schedH*1099511628211 ^ h.Sum64()
}

// Failed reports whether a violation or trouble was already recorded.
func (r *Run) Failed() bool {
	r.mu.Lock()
	defer r.mu.Unlock()
	return r.viol != nil || r.trouble != "" || r.ended
}

// EndRun ends the run early without a verdict (e.g. after a known finding made
// further checking meaningless): harness tasks stop at their next Yield.
func (r *Run) EndRun() {
	r.mu.Lock()
	r.ended = true
	r.mu.Unlock()
	r.fireOnStop()
	panic(stopRun{})
}

// OnStop registers f to be called once, on the task that ends or fails the run,
// right when that happens (before the orderly wind-down): the place to cancel
// the contexts long waits of other harness tasks hang on. f must not yield.
func (r *Run) OnStop(f func()) {
	r.mu.Lock()
	r.onStop = append(r.onStop, f)
	r.mu.Unlock()
}

func (r *Run) fireOnStop() {
	r.mu.Lock()
	fs := r.onStop
	r.onStop = nil
	r.mu.Unlock()
	for _, f := range fs {
		f()
	}
}

// Yield is the scheduling point of harness code (between operations). Once the
// run has failed every harness task ends at its next Yield, while the
// scheduler keeps deciding, so the system under test winds down in an orderly
// way (no free-running goroutines).
func (r *Run) Yield(point string) {
	if r.Sched != nil {
		r.Sched.Yield(point)
	}
	if r.Failed() {
		panic(stopRun{})
	}
}

// Violation records a violation (first one wins) and aborts the calling task.
// class is the oracle clause; sig a structural signature (defaults to class).
func (r *Run) Violation(class, sig, format string, args ...interface{}) {
	r.mu.Lock()
	if r.viol == nil && !r.ended {
		if sig == "" {
			sig = class
		}
		r.viol = &Violation{Class: class, Sig: sig, Msg: fmt.Sprintf(format, args...)}
	}
	r.mu.Unlock()
	r.fireOnStop()
	panic(stopRun{})
}

// Trouble records a simulator problem (never a property verdict) and aborts.
func (r *Run) Trouble(format string, args ...interface{}) {
	r.mu.Lock()
	if r.trouble == "" {
		r.trouble = fmt.Sprintf(format, args...)
	}
	r.mu.Unlock()
	panic(stopRun{})
}

// Check aborts with trouble if err != nil (for harness-side steps that must
// not fail, e.g. creating scratch directories).
func (r *Run) Must(err error, what string) {
	if err != nil {
		r.Trouble("%s: %v", what, err)
	}
}

func (r *Run) recoverTask() {
	if x := recover(); x != nil {
		if _, ok := x.(stopRun); ok {
			return
		}
		// a panic raised inside the system under test (innermost non-runtime
		// frame under /repo/) is a violation; a panic of the harness is trouble
		stack := string(debug.Stack())
		r.mu.Lock()
		if r.viol == nil && r.trouble == "" {
			if fn := sutPanicFrame(stack); fn != "" {
				r.viol = &Violation{Class: "panic", Sig: "panic:" + fn, Msg: fmt.Sprintf("panic in the system under test: %v\n%s", x, stack)}
			} else {
				r.trouble = fmt.Sprintf("unexpected panic: %v\n%s", x, stack)
			}
		}
		r.mu.Unlock()
	}
}

// sutPanicFrame returns the function in which a panic was raised if that
// function belongs to the system under test, "" otherwise.
func sutPanicFrame(stack string) string {
	lines := strings.Split(stack, "\n")
	start := -1
	for i, l := range lines {
		if strings.HasPrefix(l, "panic(") {
			start = i
		}
	}
	if start < 0 {
		return ""
	}
	for i := start + 2; i+1 < len(lines); i += 2 {
		fn, file := lines[i], strings.TrimSpace(lines[i+1])
		if strings.HasPrefix(file, "/opt/") || strings.Contains(file, "/src/runtime/") || strings.Contains(file, "/go1.") {
			continue
		}
		if strings.HasPrefix(file, "/repo/") || strings.Contains(file, "codenotary/immudb") {
			if j := strings.LastIndex(fn, "("); j > 0 {
				fn = fn[:j]
			}
			if j := strings.LastIndex(fn, "/"); j >= 0 {
				fn = fn[j+1:]
			}
			return fn
		}
		return ""
	}
	return ""
}

// Catch runs f and converts a panic raised by the system under test into an
// error value (stopRun panics pass through).
func (r *Run) Catch(f func()) (panicked interface{}, stack string) {
	defer func() {
		if x := recover(); x != nil {
			if _, ok := x.(stopRun); ok {
				panic(x)
			}
			panicked = x
			stack = string(debug.Stack())
		}
	}()
	f()
	return nil, ""
}

// Defer registers a cleanup executed when the run ends (in reverse order).
func (r *Run) Defer(f func()) {
	r.mu.Lock()
	r.cleanup = append(r.cleanup, f)
	r.mu.Unlock()
}

var scratchBase string
var scratchOnce sync.Once

func scratchRoot() string {
	scratchOnce.Do(func() {
		base := "/dev/shm"
		if st, err := os.Stat(base); err != nil || !st.IsDir() {
			base = os.TempDir()
		}
		scratchBase = filepath.Join(base, fmt.Sprintf("verifsim-%d", os.Getpid()))
		os.RemoveAll(scratchBase)
		os.MkdirAll(scratchBase, 0o755)
	})
	return scratchBase
}

// RemoveScratch deletes the process scratch directory.
func RemoveScratch() {
	if scratchBase != "" {
		os.RemoveAll(scratchBase)
	}
}

// Dir returns a fresh empty scratch directory with a fixed, reusable name
// (immudb registers metrics labelled by path, so names repeat across runs).
func (r *Run) Dir(name string) string {
	p := filepath.Join(scratchRoot(), name)
	os.RemoveAll(p)
	if err := os.MkdirAll(p, 0o755); err != nil {
		r.Trouble("mkdir %s: %v", p, err)
	}
	r.mu.Lock()
	r.dirs = append(r.dirs, p)
	r.mu.Unlock()
	return p
}

// Scenario is the replay file: everything needed to re-execute one run.
type Scenario struct {
	Property string              `json:"property"`
	Seed     uint64              `json:"seed"`
	Tier     string              `json:"tier"`
	Params   map[string]int64    `json:"params,omitempty"`
	Tape     map[string][]uint32 `json:"tape,omitempty"`
	// informational
	Violation *Violation `json:"violation,omitempty"`
	Trace     []string   `json:"trace,omitempty"`
	Minimised bool       `json:"minimised"`
	DrawsOrig int        `json:"draws_original,omitempty"`
	DrawsMin  int        `json:"draws_minimised,omitempty"`
}

// Result is the outcome of one run.
type Result struct {
	Seed       uint64
	Viol       *Violation
	Trouble    string
	Stuck      string
	Tape       map[string][]uint32
	Params     map[string]int64
	Log        []string
	Probes     map[string]int
	Faults     map[string]int
	Sig        uint64
	Nontrivial bool
	Sample     interface{}
	Decisions  int64
	Switches   int
	SimDur     time.Duration
	Draws      int
	Findings   map[string]string
	FindingsN  map[string]int
	StuckKnown bool // the run got stuck in a way a listed finding explains
}

// Exec executes one run of c. If sc != nil the scenario's tape and params are
// replayed, otherwise everything derives from seed.
func Exec(t *testing.T, c *Check, seed uint64, tier string, sc *Scenario) *Result {
	r := &Run{Check: c, Seed: seed, Tier: tier, probes: map[string]int{}, faults: map[string]int{}}
	if sc != nil {
		r.tape = NewReplayTape(seed, sc.Tape)
		r.Params = map[string]int64{}
		for k, v := range sc.Params {
			r.Params[k] = v
		}
	} else {
		r.tape = NewTape(seed)
	}
	r.traceSched = os.Getenv("VERIF_TRACE_SCHED") != ""
	curRun.Store(r)
	defer curRun.CompareAndSwap(r, nil)

	hooks := &simhook.Hooks{
		Probe: func(name string) { r.Probe(name) },
		Intn:  func(n int, label string) int { return r.tape.Intn("hook", n) },
		// a panic that unwinds a goroutine of the system (indexer, syncer, replicator,
		// truncator loop, ...) would end the process: it is recorded like a panic in a
		// harness task and the goroutine ends in an orderly way
		GoPanic: func(x interface{}, stack []byte) {
			st := string(stack)
			r.mu.Lock()
			if r.viol == nil && r.trouble == "" && !r.ended {
				if fn := sutPanicFrame(st); fn != "" {
					r.viol = &Violation{Class: "panic", Sig: "panic:" + fn, Msg: fmt.Sprintf("panic in a background goroutine of the system under test: %v\n%s", x, st)}
				} else {
					r.trouble = fmt.Sprintf("unexpected panic in a background goroutine: %v\n%s", x, st)
				}
			}
			r.mu.Unlock()
			r.fireOnStop()
		},
	}
	r.Disk = newDisk(r)
	r.Disk.install(hooks)

	freeRun := c.FreeRun
	theBody := c.Body
	if c.AltBody != nil && r.tape.Intn("gen", 100) < int(envInt("VERIF_ALT_PCT", int64(c.AltPct))) {
		freeRun, theBody = !c.AltSched, c.AltBody
	}
	body := func() {
		defer r.recoverTask()
		theBody(r)
	}
	finish := func() {
		r.mu.Lock()
		cl := r.cleanup
		r.cleanup = nil
		r.mu.Unlock()
		for i := len(cl) - 1; i >= 0; i-- {
			func() {
				defer func() { recover() }()
				cl[i]()
			}()
		}
	}

	res := &Result{Seed: seed}
	collect := func() {
		r.mu.Lock()
		defer r.mu.Unlock()
		res.Viol = r.viol
		res.Trouble = r.trouble
		res.Tape = r.tape.Recorded()
		res.Params = r.Params
		res.Log = r.log
		if r.logDropped > 0 {
			res.Log = append(res.Log, fmt.Sprintf("... %d more lines dropped", r.logDropped))
		}
		res.Probes = r.probes
		res.Faults = r.faults
		res.Sig = r.sigH ^ (r.schedH * 31)
		res.Nontrivial = r.nontrivial || r.switches > 0
		res.Sample = r.sample
		res.Switches = r.switches
		res.SimDur = r.simDur
		res.Draws = r.tape.Draws()
		res.Findings = r.findings
		res.FindingsN = r.findingsN
	}
	if c.Bubble && freeRun {
		// fake clock and quiescence only: the body is the single client, goroutines
		// of the system run freely between its (sequential) requests
		func() {
			defer func() {
				// goroutines left blocked at the end of the bubble, or a deadlock inside it
				if x := recover(); x != nil {
					r.mu.Lock()
					if r.viol == nil && r.trouble == "" {
						buf := make([]byte, 1<<20)
						buf = buf[:runtime.Stack(buf, true)]
						var left []string
						for _, g := range strings.Split(string(buf), "\n\n") {
							if strings.Contains(g, "synctest bubble") {
								left = append(left, g)
							}
						}
						r.trouble = fmt.Sprintf("bubble ended abnormally: %v\n%s", x, strings.Join(left, "\n\n"))
					}
					r.mu.Unlock()
				}
			}()
			synctest.Test(t, func(t *testing.T) {
				simhook.Install(hooks)
				r.simStart = time.Now()
				func() {
					defer finish()
					body()
				}()
				r.simDur = time.Since(r.simStart)
			})
		}()
		simhook.Install(nil)
	} else if c.Bubble {
		synctest.Test(t, func(t *testing.T) {
			s := newSched(r)
			r.Sched = s
			hooks.Yield = s.Yield
			hooks.BeforeLock = s.BeforeLock
			hooks.GoStart = s.GoStart
			hooks.GoEnd = s.GoEnd
			simhook.Install(hooks)
			r.simStart = time.Now()
			s.Go("main", func() {
				defer finish()
				body()
			})
			stuck := s.Loop()
			r.simDur = time.Since(r.simStart)
			res.Decisions = s.decisions
			if stuck != "" {
				// the blocked goroutines of this bubble can never be collected:
				// hand the result over and leave the process
				res.Stuck = stuck
				// two live indexing goroutines of one index (the recorded finding
				// C04:indexer-overlap-after-compaction) can keep each other from ever
				// finishing: the run that cannot end is that finding, not a new one
				const overlap = "C04:indexer-overlap-after-compaction"
				if s.MaxSameName("indexer") > 1 && knownSigs[overlap] && r.viol == nil {
					r.mu.Lock()
					if r.findings == nil {
						r.findings = map[string]string{}
						r.findingsN = map[string]int{}
					}
					if _, ok := r.findings[overlap]; !ok {
						r.findings[overlap] = "two indexing goroutines of one index were alive at the same time after CompactIndexes restarted it; the run never finishes: " + firstLine(stuck)
					}
					r.findingsN[overlap]++
					r.mu.Unlock()
					res.StuckKnown = true
				}
				collect()
				for _, d := range r.dirs {
					os.RemoveAll(d)
				}
				StuckHandler(res)
				os.Exit(4)
			}
		})
		simhook.Install(nil)
	} else {
		simhook.Install(hooks)
		func() {
			defer finish()
			body()
		}()
		simhook.Install(nil)
	}

	for _, d := range r.dirs {
		os.RemoveAll(d)
	}
	collect()
	return res
}

var logSkip = envInt("VERIF_LOG_SKIP", 0)

// curRun is the run being executed (read by the watchdog).
var curRun atomic.Pointer[Run]

// StuckHandler is called (inside the bubble) when a run got stuck; it must
// not return control to the simulation (the process exits afterwards).
var StuckHandler = func(res *Result) {}

// ---------------------------------------------------------------------------
// worker loop, reports, minimisation

// Report is what a worker process writes for the launcher to merge.
type Report struct {
	Property    string            `json:"property"`
	Worker      int               `json:"worker"`
	Runs        int               `json:"runs"`
	Nontrivial  int               `json:"nontrivial_runs"`
	Sigs        []string          `json:"sigs"`
	Probes      map[string]int    `json:"probes"`
	Faults      map[string]int    `json:"faults"`
	Decisions   int64             `json:"decisions"`
	Switches    int64             `json:"switches"`
	SimSeconds  float64           `json:"sim_seconds"`
	WallSeconds float64           `json:"wall_seconds"`
	Samples     []interface{}     `json:"samples"`
	Violations  []ViolationEntry  `json:"violations"`
	Troubles    []string          `json:"troubles"`
	Stuck       []string          `json:"stuck"`
	NextIndex   int               `json:"next_index"`
	FirstSeed   uint64            `json:"first_seed"`
	LastSeed    uint64            `json:"last_seed"`
	Aborted     string            `json:"aborted,omitempty"`
	Findings    map[string]string `json:"findings,omitempty"`
	FindingsN   map[string]int    `json:"findings_count,omitempty"`
}

type ViolationEntry struct {
	Violation
	Seed   uint64 `json:"seed"`
	Replay string `json:"replay"`
}

func envInt(name string, def int64) int64 {
	v := os.Getenv(name)
	if v == "" {
		return def
	}
	var x int64
	_, err := fmt.Sscan(v, &x)
	if err != nil {
		return def
	}
	return x
}

// SeedFor derives the run seed of the i-th run of worker w.
func SeedFor(base uint64, w, nw, i int) uint64 {
	x := base*1000003 + uint64(w) + uint64(nw)*uint64(i)
	return x
}

func replayDir() string {
	d := os.Getenv("VERIF_REPLAY_DIR")
	if d == "" {
		d = "/verif/replays"
	}
	os.MkdirAll(d, 0o755)
	return d
}

func writeScenario(c *Check, res *Result, tier string, minimised bool, origDraws int) string {
	sc := &Scenario{Property: c.ID, Seed: res.Seed, Tier: tier, Params: res.Params, Tape: res.Tape,
		Violation: res.Viol, Trace: res.Log, Minimised: minimised, DrawsOrig: origDraws, DrawsMin: res.Draws}
	if res.Viol == nil && res.Stuck != "" {
		sc.Violation = &Violation{Class: "stuck", Sig: "stuck", Msg: res.Stuck}
	}
	bs, _ := json.MarshalIndent(sc, "", " ")
	h := sha256.Sum256(bs)
	name := fmt.Sprintf("%s-%d-%s.json", c.ID, res.Seed, hex.EncodeToString(h[:4]))
	p := filepath.Join(replayDir(), name)
	os.WriteFile(p, bs, 0o644)
	return p
}

func writeReport(rep *Report) {
	out := os.Getenv("VERIF_OUT")
	if out == "" {
		return
	}
	sort.Strings(rep.Sigs)
	bs, _ := json.Marshal(rep)
	tmp := out + ".tmp"
	os.WriteFile(tmp, bs, 0o644)
	os.Rename(tmp, out)
}

func startWatchdog() {
	limit := time.Duration(envInt("VERIF_WATCHDOG_S", 60)) * time.Second
	go func() {
		last := progress.Load()
		lastChange := time.Now()
		for {
			time.Sleep(time.Second)
			cur := progress.Load()
			if cur != last {
				last = cur
				lastChange = time.Now()
				continue
			}
			if time.Since(lastChange) > limit {
				buf := make([]byte, 1<<22)
				n := runtime.Stack(buf, true)
				// a goroutine of the system under test that has been busy for the whole period
				// without reaching a scheduling point is a hang of the system (liveness checks only)
				if r := curRun.Load(); r != nil && r.Check != nil && r.Check.Liveness {
					for _, g := range strings.Split(string(buf[:n]), "\n\n") {
						head := strings.SplitN(g, "\n", 2)[0]
						if !strings.Contains(head, "synctest bubble") || !(strings.Contains(head, "[running") || strings.Contains(head, "[runnable")) {
							continue
						}
						frame := ""
						for _, l := range strings.Split(g, "\n") {
							if strings.HasPrefix(l, "github.com/codenotary/immudb/") && !strings.Contains(l, "/appendable") {
								frame = l
								if i := strings.LastIndex(frame, "("); i > 0 {
									frame = frame[:i]
								}
								frame = frame[strings.LastIndex(frame, "/")+1:]
								break
							}
						}
						if frame == "" {
							continue
						}
						r.mu.Lock()
						res := &Result{Seed: r.Seed, Tape: r.tape.Recorded(), Params: r.Params, Log: r.log, Probes: r.probes, Faults: r.faults, Draws: r.tape.Draws()}
						r.mu.Unlock()
						res.Stuck = fmt.Sprintf("hang @%s: a goroutine of the system under test has been busy for %v without reaching a scheduling point:\n%s", frame, limit, g)
						fmt.Fprintf(os.Stderr, "WATCHDOG: %s\n", res.Stuck)
						StuckHandler(res)
						os.Exit(4)
					}
				}
				fmt.Fprintf(os.Stderr, "WATCHDOG: no progress for %v; stacks:\n%s\n", limit, buf[:n])
				if f := os.Getenv("VERIF_OUT"); f != "" {
					os.WriteFile(f+".watchdog", buf[:n], 0o644)
				}
				RemoveScratch()
				os.Exit(3)
			}
		}
	}()
}

// Worker runs the worker loop for check c according to the VERIF_* environment.
func Worker(t *testing.T, c *Check) {
	tier := os.Getenv("VERIF_TIER")
	if tier == "" {
		tier = "quick"
	}
	defer RemoveScratch()
	startWatchdog()

	if rp := os.Getenv("VERIF_REPLAY"); rp != "" {
		bs, err := os.ReadFile(rp)
		if err != nil {
			fmt.Printf("REPLAY-ERROR cannot read %s: %v\n", rp, err)
			os.Exit(2)
		}
		var sc Scenario
		if err := json.Unmarshal(bs, &sc); err != nil {
			fmt.Printf("REPLAY-ERROR cannot parse %s: %v\n", rp, err)
			os.Exit(2)
		}
		if sc.Tier != "" {
			tier = sc.Tier
		}
		progress.Add(1)
		StuckHandler = func(res *Result) {
			for _, l := range res.Log {
				fmt.Println("  trace:", l)
			}
			if res.Viol != nil {
				fmt.Printf("REPLAY-VIOLATION property=%s class=%s sig=%s\n  %s\n", c.ID, res.Viol.Class, res.Viol.Sig, res.Viol.Msg)
				RemoveScratch()
				os.Exit(1)
			}
			if !c.Liveness || res.Trouble != "" {
				fmt.Printf("REPLAY-TROUBLE stuck: %s %s\n", res.Stuck, res.Trouble)
				RemoveScratch()
				os.Exit(2)
			}
			fmt.Printf("REPLAY-VIOLATION property=%s class=stuck sig=stuck:%s\n  %s\n", c.ID, stuckSig(res.Stuck), res.Stuck)
			RemoveScratch()
			os.Exit(1)
		}
		res := Exec(t, c, sc.Seed, tier, &sc)
		for _, l := range res.Log {
			fmt.Println("  trace:", l)
		}
		switch {
		case res.Viol != nil:
			fmt.Printf("REPLAY-VIOLATION property=%s class=%s sig=%s\n  %s\n", c.ID, res.Viol.Class, res.Viol.Sig, res.Viol.Msg)
			RemoveScratch()
			os.Exit(1)
		case res.Stuck != "":
			fmt.Printf("REPLAY-VIOLATION property=%s class=stuck sig=stuck\n  %s\n", c.ID, res.Stuck)
			RemoveScratch()
			os.Exit(1)
		case res.Trouble != "":
			fmt.Printf("REPLAY-TROUBLE %s\n", res.Trouble)
			RemoveScratch()
			os.Exit(2)
		}
		fmt.Printf("REPLAY-OK property=%s no violation\n", c.ID)
		return
	}

	base := uint64(envInt("VERIF_SEED", 1))
	w := int(envInt("VERIF_WORKER", 0))
	nw := int(envInt("VERIF_NWORKERS", 1))
	budget := time.Duration(envInt("VERIF_BUDGET_S", 30)) * time.Second
	maxRuns := int(envInt("VERIF_MAX_RUNS", 1<<30))
	startIdx := int(envInt("VERIF_START_INDEX", 0))
	maxViol := int(envInt("VERIF_MAX_VIOLATIONS", 3))

	rep := &Report{Property: c.ID, Worker: w, Probes: map[string]int{}, Faults: map[string]int{}}
	StuckHandler = func(res *Result) {
		if res.Viol != nil {
			// a violation was found and the teardown of the run hung afterwards
			p := writeScenario(c, res, tier, false, res.Draws)
			rep.Violations = append(rep.Violations, ViolationEntry{*res.Viol, res.Seed, p})
		} else if res.Trouble != "" {
			rep.Troubles = append(rep.Troubles, fmt.Sprintf("seed=%d: %s", res.Seed, res.Trouble))
		} else if res.StuckKnown {
			for k, v := range res.Findings {
				if rep.Findings == nil {
					rep.Findings = map[string]string{}
					rep.FindingsN = map[string]int{}
				}
				if _, ok := rep.Findings[k]; !ok {
					rep.Findings[k] = fmt.Sprintf("seed=%d: %s", res.Seed, v)
				}
				rep.FindingsN[k] += res.FindingsN[k]
			}
		} else if c.Liveness {
			p := writeScenario(c, res, tier, false, res.Draws)
			rep.Violations = append(rep.Violations, ViolationEntry{Violation{Class: "stuck", Sig: "stuck:" + stuckSig(res.Stuck), Msg: res.Stuck}, res.Seed, p})
		} else {
			rep.Stuck = append(rep.Stuck, fmt.Sprintf("seed=%d: %s", res.Seed, res.Stuck))
		}
		rep.Runs++
		rep.Aborted = "stuck"
		writeReport(rep)
		RemoveScratch()
		os.Exit(4)
	}
	sigs := map[uint64]bool{}
	classes := map[string]bool{}
	start := time.Now()
	i := startIdx
	for ; i < startIdx+maxRuns; i++ {
		if time.Since(start) > budget {
			break
		}
		seed := SeedFor(base, w, nw, i)
		if rep.Runs == 0 {
			rep.FirstSeed = seed
		}
		rep.LastSeed = seed
		rep.NextIndex = i + 1
		if out := os.Getenv("VERIF_OUT"); out != "" {
			os.WriteFile(out+".idx", []byte(fmt.Sprint(i)), 0o644)
		}
		progress.Add(1)
		res := Exec(t, c, seed, tier, nil)
		if os.Getenv("VERIF_DUMP_LOG") != "" {
			for _, l := range res.Log {
				fmt.Println("LOG", l)
			}
		}
		if os.Getenv("VERIF_DIGEST") != "" {
			v := "-"
			if res.Viol != nil {
				v = res.Viol.Sig
			}
			fmt.Printf("DIGEST seed=%d sig=%016x draws=%d decisions=%d switches=%d simns=%d viol=%s\n", seed, res.Sig, res.Draws, res.Decisions, res.Switches, res.SimDur.Nanoseconds(), v)
		}
		rep.Runs++
		rep.Decisions += res.Decisions
		rep.Switches += int64(res.Switches)
		rep.SimSeconds += res.SimDur.Seconds()
		for k, v := range res.Probes {
			rep.Probes[k] += v
		}
		for k, v := range res.Faults {
			rep.Faults[k] += v
		}
		for k, v := range res.Findings {
			if rep.Findings == nil {
				rep.Findings = map[string]string{}
				rep.FindingsN = map[string]int{}
			}
			if _, ok := rep.Findings[k]; !ok {
				rep.Findings[k] = fmt.Sprintf("seed=%d: %s", seed, v)
			}
			rep.FindingsN[k] += res.FindingsN[k]
		}
		if res.Nontrivial {
			rep.Nontrivial++
			if !sigs[res.Sig] {
				sigs[res.Sig] = true
				var b [8]byte
				binary.BigEndian.PutUint64(b[:], res.Sig)
				rep.Sigs = append(rep.Sigs, hex.EncodeToString(b[:]))
			}
		}
		if res.Sample != nil && len(rep.Samples) < 3 {
			rep.Samples = append(rep.Samples, map[string]interface{}{"seed": seed, "case": res.Sample})
		}
		if res.Trouble != "" {
			rep.Troubles = append(rep.Troubles, fmt.Sprintf("seed=%d: %s", seed, res.Trouble))
			if len(rep.Troubles) > 5 {
				rep.Aborted = "too many simulator troubles"
				break
			}
			continue
		}
		if res.Stuck != "" {
			// not reached: StuckHandler exits the process (kept for safety)
			if c.Liveness {
				p := writeScenario(c, res, tier, false, res.Draws)
				rep.Violations = append(rep.Violations, ViolationEntry{Violation{Class: "stuck", Sig: "stuck:" + stuckSig(res.Stuck), Msg: res.Stuck}, seed, p})
			} else {
				rep.Stuck = append(rep.Stuck, fmt.Sprintf("seed=%d: %s", seed, res.Stuck))
			}
			rep.Aborted = "stuck"
			rep.WallSeconds = time.Since(start).Seconds()
			writeReport(rep)
			RemoveScratch()
			os.Exit(4)
		}
		if res.Viol != nil {
			if classes[res.Viol.Sig] {
				continue
			}
			// a violation counts only if re-executing its recorded tape reproduces it:
			// anything else is a determinism gap of the simulator, reported as trouble
			// (exit 2 when frequent), never as a verdict about the property
			if os.Getenv("VERIF_NO_CONFIRM") == "" {
				sc := &Scenario{Property: c.ID, Seed: res.Seed, Tier: tier, Params: res.Params, Tape: res.Tape}
				progress.Add(1)
				if r2 := Exec(t, c, res.Seed, tier, sc); r2.Viol == nil || r2.Viol.Sig != res.Viol.Sig {
					msg := res.Viol.Msg
					if len(msg) > 400 {
						msg = msg[:400]
					}
					rep.Troubles = append(rep.Troubles, fmt.Sprintf("seed=%d: %s was reported once but re-executing the recorded tape did not reproduce it (simulator nondeterminism, not a verdict): %s", seed, res.Viol.Sig, msg))
					if len(rep.Troubles) > 5 {
						rep.Aborted = "too many simulator troubles"
						break
					}
					continue
				}
			}
			classes[res.Viol.Sig] = true
			// persist the un-minimised scenario first
			p := writeScenario(c, res, tier, false, res.Draws)
			entry := ViolationEntry{*res.Viol, seed, p}
			rep.Violations = append(rep.Violations, entry)
			writeReport(rep)
			if os.Getenv("VERIF_NO_MINIMISE") == "" {
				minBudget := time.Duration(envInt("VERIF_MIN_BUDGET_S", 45)) * time.Second
				if mres := Minimise(t, c, res, tier, minBudget); mres != nil {
					mp := writeScenario(c, mres, tier, true, res.Draws)
					if mp != p {
						os.Remove(p)
					}
					rep.Violations[len(rep.Violations)-1].Replay = mp
					rep.Violations[len(rep.Violations)-1].Violation = *mres.Viol
				}
			}
			if len(rep.Violations) >= maxViol {
				break
			}
		}
	}
	rep.WallSeconds = time.Since(start).Seconds()
	writeReport(rep)
}

func stuckSig(s string) string {
	// keep only the parked points, drop counters
	var parts []string
	for _, f := range strings.Fields(s) {
		if i := strings.Index(f, "@"); i >= 0 {
			parts = append(parts, f[i+1:])
		}
	}
	if len(parts) > 4 {
		parts = parts[:4]
	}
	return strings.Join(parts, ",")
}

// Minimise shrinks the recorded tape of a violating run (chunk deletion and
// zeroing per stream, ddmin style) while the same violation signature
// persists. It returns the smallest violating result found.
func Minimise(t *testing.T, c *Check, orig *Result, tier string, budget time.Duration) *Result {
	deadline := time.Now().Add(budget)
	best := orig
	want := orig.Viol.Sig
	try := func(tape map[string][]uint32) *Result {
		if time.Now().After(deadline) {
			return nil
		}
		sc := &Scenario{Property: c.ID, Seed: orig.Seed, Tier: tier, Params: orig.Params, Tape: tape}
		progress.Add(1)
		res := Exec(t, c, orig.Seed, tier, sc)
		if res.Stuck != "" {
			// cannot continue in this process
			deadline = time.Now()
			return nil
		}
		if res.Viol != nil && res.Viol.Sig == want {
			return res
		}
		return nil
	}
	// sanity: replay of the recorded tape must reproduce
	if r0 := try(orig.Tape); r0 == nil {
		fmt.Fprintf(os.Stderr, "MINIMISE: recorded tape of seed %d did not reproduce %s\n", orig.Seed, want)
		return nil
	} else {
		best = r0
	}
	streams := func(tp map[string][]uint32) []string {
		var ss []string
		for k := range tp {
			ss = append(ss, k)
		}
		sort.Strings(ss)
		return ss
	}
	improved := true
	for improved && time.Now().Before(deadline) {
		improved = false
		for _, st := range streams(best.Tape) {
			// chunk deletion
			for size := len(best.Tape[st]) / 2; size >= 1; size /= 2 {
				for off := 0; off+size <= len(best.Tape[st]); {
					cand := cloneTape(best.Tape)
					v := cand[st]
					cand[st] = append(append([]uint32(nil), v[:off]...), v[off+size:]...)
					if res := try(cand); res != nil && tapeLen(res.Tape) < tapeLen(best.Tape) {
						best = res
						improved = true
					} else {
						off += size
					}
					if time.Now().After(deadline) {
						break
					}
				}
			}
			// zeroing
			for size := len(best.Tape[st]) / 2; size >= 1; size /= 2 {
				for off := 0; off+size <= len(best.Tape[st]); off += size {
					v := best.Tape[st]
					allZero := true
					for _, x := range v[off : off+size] {
						if x != 0 {
							allZero = false
						}
					}
					if allZero {
						continue
					}
					cand := cloneTape(best.Tape)
					for j := off; j < off+size; j++ {
						cand[st][j] = 0
					}
					if res := try(cand); res != nil && tapeWeight(res.Tape) < tapeWeight(best.Tape) {
						best = res
						improved = true
					}
					if time.Now().After(deadline) {
						break
					}
				}
			}
		}
	}
	return best
}

func cloneTape(t map[string][]uint32) map[string][]uint32 {
	o := map[string][]uint32{}
	for k, v := range t {
		o[k] = append([]uint32(nil), v...)
	}
	return o
}

func tapeLen(t map[string][]uint32) int {
	n := 0
	for _, v := range t {
		n += len(v)
	}
	return n
}

func tapeWeight(t map[string][]uint32) int {
	n := 0
	for _, v := range t {
		for _, x := range v {
			if x != 0 {
				n++
			}
		}
		n += len(v) * 1000
	}
	return n
}

func (r *Run) simNow() time.Duration {
	if r.simStart.IsZero() {
		return 0
	}
	return time.Since(r.simStart)
}

func firstLine(s string) string {
	if i := strings.IndexByte(s, '\n'); i >= 0 {
		return s[:i]
	}
	return s
}
