package simcore

import (
	"errors"
	"fmt"
	"os"
	"path/filepath"
	"sort"
	"strings"
	"sync"

	"github.com/codenotary/immudb/embedded/simhook"
)

// OpKind enumerates recorded storage operations.
type OpKind uint8

const (
	OpCreate OpKind = iota + 1
	OpWrite
	OpSync
	OpSyncDir
	OpRemove
	OpRemoveAll
	OpReplace
	OpMark
	OpSyncFailed
)

func (k OpKind) String() string {
	return [...]string{"?", "create", "write", "sync", "syncdir", "remove", "removeall", "replace", "mark", "syncfailed"}[k]
}

// Op is one recorded storage operation. Path is relative to the disk root.
type Op struct {
	Kind OpKind
	Path string
	Off  int64
	Data []byte
	Tag  string // OpMark
	Val  int64  // OpMark
}

// Disk records every storage operation performed below Root (through the
// simhook I/O hooks) and can materialise, for any prefix of the recorded
// operation log, an image of what a real file system may expose after the
// process was killed or the machine lost power at that instant.
type Disk struct {
	mu   sync.Mutex
	r    *Run
	root string
	ops  []Op
	base map[string][]byte // files present (durably) when recording started

	// error faults (per-mille), drawn from the "fault" stream
	FailWritePM, FailSyncPM, FailReadPM, FlipReadPM int
	// FaultPaths restricts faults to paths containing one of these substrings
	FaultPaths []string
	// Armed gates fault injection (so that faults land inside workload ops)
	Armed bool

	nWrites, nSyncs int
}

var ErrInjected = errors.New("simdisk: injected I/O error")

func newDisk(r *Run) *Disk { return &Disk{r: r} }

// Attach starts recording operations below root. Files already present are
// treated as durable.
func (d *Disk) Attach(root string) {
	d.mu.Lock()
	defer d.mu.Unlock()
	d.root = filepath.Clean(root)
	d.ops = nil
	d.base = map[string][]byte{}
	filepath.Walk(d.root, func(p string, info os.FileInfo, err error) error {
		if err != nil || info.IsDir() {
			return nil
		}
		bs, err := os.ReadFile(p)
		if err == nil {
			rel, _ := filepath.Rel(d.root, p)
			d.base[rel] = bs
		}
		return nil
	})
}

// Detach stops recording.
func (d *Disk) Detach() {
	d.mu.Lock()
	d.root = ""
	d.mu.Unlock()
}

func (d *Disk) rel(path string) (string, bool) {
	if d.root == "" {
		return "", false
	}
	p := filepath.Clean(path)
	if p == d.root {
		return ".", true
	}
	if strings.HasPrefix(p, d.root+string(filepath.Separator)) {
		return p[len(d.root)+1:], true
	}
	return "", false
}

var traceIO = os.Getenv("VERIF_TRACE_IO") != ""

func (d *Disk) record(op Op) {
	d.ops = append(d.ops, op)
	if traceIO {
		d.r.Logf("io %s %s off=%d len=%d %s%d", op.Kind, op.Path, op.Off, len(op.Data), op.Tag, op.Val)
	}
}

func (d *Disk) install(h *simhook.Hooks) {
	h.IOCreate = func(path string) {
		d.mu.Lock()
		defer d.mu.Unlock()
		if p, ok := d.rel(path); ok {
			d.record(Op{Kind: OpCreate, Path: p})
		}
	}
	h.IOWrite = func(path string, off int64, data []byte) {
		d.mu.Lock()
		defer d.mu.Unlock()
		if p, ok := d.rel(path); ok {
			d.nWrites++
			d.record(Op{Kind: OpWrite, Path: p, Off: off, Data: append([]byte(nil), data...)})
		}
	}
	h.IOSync = func(path string) {
		d.mu.Lock()
		defer d.mu.Unlock()
		if p, ok := d.rel(path); ok {
			d.nSyncs++
			d.record(Op{Kind: OpSync, Path: p})
		}
	}
	h.IOSyncDir = func(path string) {
		d.mu.Lock()
		defer d.mu.Unlock()
		if p, ok := d.rel(path); ok {
			d.record(Op{Kind: OpSyncDir, Path: p})
		}
	}
	h.IORemove = func(path string) {
		d.mu.Lock()
		defer d.mu.Unlock()
		if p, ok := d.rel(path); ok {
			d.record(Op{Kind: OpRemove, Path: p})
		}
	}
	h.IORemoveAll = func(path string) {
		d.mu.Lock()
		defer d.mu.Unlock()
		if p, ok := d.rel(path); ok {
			d.record(Op{Kind: OpRemoveAll, Path: p})
		}
	}
	h.IOReplace = func(path string, data []byte) {
		d.mu.Lock()
		defer d.mu.Unlock()
		if p, ok := d.rel(path); ok {
			d.record(Op{Kind: OpReplace, Path: p, Data: append([]byte(nil), data...)})
		}
	}
	h.IOFailWrite = func(path string, off int64, n int) error {
		d.mu.Lock()
		defer d.mu.Unlock()
		if _, ok := d.rel(path); !ok || !d.Armed || d.FailWritePM == 0 || !d.faultPath(path) {
			return nil
		}
		if d.r.tape.Intn("fault", 1000) < d.FailWritePM {
			d.r.Fault("write-eio")
			d.r.Logf("fault write-eio %s", filepath.Base(path))
			return fmt.Errorf("%w: write %s", ErrInjected, filepath.Base(path))
		}
		return nil
	}
	h.IOFailSync = func(path string) error {
		d.mu.Lock()
		defer d.mu.Unlock()
		p, ok := d.rel(path)
		if !ok || !d.Armed || d.FailSyncPM == 0 || !d.faultPath(path) {
			return nil
		}
		if d.r.tape.Intn("fault", 1000) < d.FailSyncPM {
			d.r.Fault("fsync-fail")
			d.r.Logf("fault fsync-fail %s", filepath.Base(path))
			d.record(Op{Kind: OpSyncFailed, Path: p})
			return fmt.Errorf("%w: fsync %s", ErrInjected, filepath.Base(path))
		}
		return nil
	}
	h.IOFailRead = func(path string, off int64, n int) error {
		d.mu.Lock()
		defer d.mu.Unlock()
		if _, ok := d.rel(path); !ok || !d.Armed || d.FailReadPM == 0 || !d.faultPath(path) {
			return nil
		}
		if d.r.tape.Intn("fault", 1000) < d.FailReadPM {
			d.r.Fault("read-eio")
			d.r.Logf("fault read-eio %s", filepath.Base(path))
			return fmt.Errorf("%w: read %s", ErrInjected, filepath.Base(path))
		}
		return nil
	}
	h.IOCorruptRead = func(path string, off int64, b []byte) {
		d.mu.Lock()
		defer d.mu.Unlock()
		if _, ok := d.rel(path); !ok || !d.Armed || d.FlipReadPM == 0 || len(b) == 0 || !d.faultPath(path) {
			return
		}
		if d.r.tape.Intn("fault", 1000) < d.FlipReadPM {
			i := d.r.tape.Intn("fault", len(b))
			bit := d.r.tape.Intn("fault", 8)
			b[i] ^= 1 << uint(bit)
			d.r.Fault("read-bitflip")
			d.r.Logf("fault read-bitflip %s off=%d bit=%d", filepath.Base(path), off+int64(i), bit)
		}
	}
}

func (d *Disk) faultPath(path string) bool {
	if len(d.FaultPaths) == 0 {
		return true
	}
	for _, s := range d.FaultPaths {
		if strings.Contains(path, s) {
			return true
		}
	}
	return false
}

// Mark appends a marker (e.g. "ack", txID) to the operation log and returns
// its index.
func (d *Disk) Mark(tag string, val int64) int {
	d.mu.Lock()
	defer d.mu.Unlock()
	d.record(Op{Kind: OpMark, Tag: tag, Val: val})
	return len(d.ops) - 1
}

// NumOps returns the current length of the operation log.
func (d *Disk) NumOps() int {
	d.mu.Lock()
	defer d.mu.Unlock()
	return len(d.ops)
}

// Ops returns the operation log (not a copy; do not mutate).
func (d *Disk) Ops() []Op {
	d.mu.Lock()
	defer d.mu.Unlock()
	return d.ops
}

// Base returns the initial durable files (not a copy).
func (d *Disk) Base() map[string][]byte { return d.base }

// Trace is a recorded operation log with its starting state.
type Trace struct {
	Base map[string][]byte
	Ops  []Op
}

// Snapshot returns the current trace.
func (d *Disk) Snapshot() *Trace {
	d.mu.Lock()
	defer d.mu.Unlock()
	return &Trace{Base: d.base, Ops: d.ops}
}

// CreationInFlight reports whether, after the first k operations, some file has
// been created whose creation is not complete yet (header write, fsync and
// directory sync still to come).
func (t *Trace) CreationInFlight(k int) (string, bool) {
	if k > len(t.Ops) {
		k = len(t.Ops)
	}
	open := map[string]bool{}
	for i := 0; i < k; i++ {
		op := &t.Ops[i]
		switch op.Kind {
		case OpCreate:
			open[op.Path] = true
		case OpSyncDir:
			for p := range open {
				if filepath.Dir(p) == op.Path {
					delete(open, p)
				}
			}
		}
	}
	for p := range open {
		return p, true
	}
	return "", false
}

// MarksBefore returns the values of all marks with the given tag among the
// first k operations.
func (t *Trace) MarksBefore(tag string, k int) []int64 {
	var out []int64
	for i := 0; i < k && i < len(t.Ops); i++ {
		if t.Ops[i].Kind == OpMark && t.Ops[i].Tag == tag {
			out = append(out, t.Ops[i].Val)
		}
	}
	return out
}

// ---------------------------------------------------------------------------
// image construction

type wr struct {
	off     int64
	data    []byte
	durable bool
	doomed  bool // was pending at a failed fsync: never guaranteed durable
}

type fstate struct {
	writes        []wr
	dirDurable    bool // creation has been made durable by a directory sync
	removePending bool
	removedByTree bool
	versions      [][]byte // pending atomic replacements (rename): oldest..newest
	hasBaseVer    bool
}

// ImageMode selects how un-synced state is resolved.
type ImageMode int

const (
	// ImageKill: process kill — every completed write is present.
	ImageKill ImageMode = iota
	// ImageNone: power loss, nothing un-synced survived.
	ImageNone
	// ImageRandom: power loss, per file a tape-chosen subset of un-synced
	// writes survived, possibly torn at sector granularity.
	ImageRandom
	// ImagePrefix: power loss, per file a prefix of its un-synced writes survived.
	ImagePrefix
	NumImageModes
)

func (m ImageMode) String() string {
	return [...]string{"kill", "powerloss-none", "powerloss-random", "powerloss-prefix"}[m]
}

// ImageStats describes what the image builder did.
type ImageStats struct {
	Files, PendingWrites, Dropped, Torn, AbsentCreated, ResurrectedRemoved, OldVersions int
}

// Chooser supplies the choices of the image builder.
type Chooser func(n int) int

const sector = 512

// BuildImage materialises into dst the state after the first k operations of
// the trace, resolved according to mode.
func (t *Trace) BuildImage(k int, mode ImageMode, choose Chooser, dst string) (ImageStats, error) {
	var st ImageStats
	files := map[string]*fstate{}
	for p, bs := range t.Base {
		files[p] = &fstate{writes: []wr{{off: 0, data: bs, durable: true}}, dirDurable: true}
	}
	get := func(p string) *fstate {
		f, ok := files[p]
		if !ok {
			f = &fstate{}
			files[p] = f
		}
		return f
	}
	if k > len(t.Ops) {
		k = len(t.Ops)
	}
	for i := 0; i < k; i++ {
		op := &t.Ops[i]
		switch op.Kind {
		case OpCreate:
			f := get(op.Path)
			if f.removePending {
				*f = fstate{} // a new file under the old name
			}
		case OpWrite:
			f := get(op.Path)
			f.writes = append(f.writes, wr{off: op.Off, data: op.Data})
		case OpSync:
			f := get(op.Path)
			for j := range f.writes {
				if !f.writes[j].doomed {
					f.writes[j].durable = true
				}
			}
		case OpSyncFailed:
			f := get(op.Path)
			for j := range f.writes {
				if !f.writes[j].durable {
					f.writes[j].doomed = true
				}
			}
		case OpSyncDir:
			for p, f := range files {
				if filepath.Dir(p) == op.Path || (op.Path == "." && !strings.Contains(p, string(filepath.Separator))) {
					if f.removePending {
						delete(files, p)
						continue
					}
					f.dirDurable = true
					if len(f.versions) > 0 {
						last := f.versions[len(f.versions)-1]
						f.versions = nil
						f.writes = []wr{{off: 0, data: last, durable: true}}
						f.hasBaseVer = false
					}
				}
			}
		case OpRemove:
			if f, ok := files[op.Path]; ok {
				f.removePending = true
			}
		case OpRemoveAll:
			pre := op.Path + string(filepath.Separator)
			for p, f := range files {
				if p == op.Path || strings.HasPrefix(p, pre) {
					f.removePending = true
					f.removedByTree = true
				}
			}
		case OpReplace:
			f := get(op.Path)
			f.versions = append(f.versions, op.Data)
		}
	}

	var paths []string
	for p := range files {
		paths = append(paths, p)
	}
	sort.Strings(paths)
	for _, p := range paths {
		f := files[p]
		// removal not yet made durable
		if f.removePending {
			if f.removedByTree {
				// recursive removals of whole folders are treated as durable once done
				continue
			}
			switch mode {
			case ImageKill:
				continue
			case ImageNone:
				st.ResurrectedRemoved++
			default:
				if choose(2) == 0 {
					continue
				}
				st.ResurrectedRemoved++
			}
		}
		// atomic replacements (rename) not yet made durable by a dir sync
		if len(f.versions) > 0 {
			var content []byte
			pick := len(f.versions) // newest
			switch mode {
			case ImageKill:
			case ImageNone:
				pick = 0
			default:
				pick = choose(len(f.versions) + 1)
			}
			if pick == 0 {
				// the state before the first replacement
				if len(f.writes) == 0 {
					st.OldVersions++
					continue // file did not exist
				}
				content = flatten(f.writes, func(w *wr) int { return 2 }, &st)
				st.OldVersions++
			} else {
				if pick < len(f.versions) {
					st.OldVersions++
				}
				content = f.versions[pick-1]
			}
			if err := writeImageFile(dst, p, content); err != nil {
				return st, err
			}
			st.Files++
			continue
		}
		// created but directory entry not durable
		if !f.dirDurable {
			switch mode {
			case ImageKill:
			case ImageNone:
				st.AbsentCreated++
				continue
			default:
				if choose(2) == 1 {
					st.AbsentCreated++
					continue
				}
			}
		}
		npend := 0
		for j := range f.writes {
			if !f.writes[j].durable {
				npend++
			}
		}
		st.PendingWrites += npend
		var decide func(w *wr) int // 0 drop, 1 torn, 2 keep
		switch mode {
		case ImageKill:
			decide = func(w *wr) int { return 2 }
		case ImageNone:
			decide = func(w *wr) int {
				if w.durable {
					return 2
				}
				return 0
			}
		case ImagePrefix:
			keep := 0
			if npend > 0 {
				keep = choose(npend + 1)
			}
			seen := 0
			tearLast := npend > 0 && choose(3) == 0
			decide = func(w *wr) int {
				if w.durable {
					return 2
				}
				seen++
				if seen < keep {
					return 2
				}
				if seen == keep {
					if tearLast {
						return 1
					}
					return 2
				}
				return 0
			}
		default:
			// per file: all / none / random subset with tearing
			fm := 2
			if npend > 0 {
				fm = choose(4)
			}
			decide = func(w *wr) int {
				if w.durable {
					return 2
				}
				switch fm {
				case 0:
					return 0
				case 1:
					return 2
				default:
					return choose(3)
				}
			}
		}
		content := flatten(f.writes, decide, &st)
		_ = content
		if err := writeImageFile(dst, p, content); err != nil {
			return st, err
		}
		st.Files++
	}
	return st, nil
}

// flatten applies the writes in order; torn writes keep a tape-independent
// deterministic subset of their sectors (even sectors relative to the file).
func flatten(ws []wr, decide func(w *wr) int, st *ImageStats) []byte {
	var content []byte
	apply := func(off int64, data []byte) {
		end := off + int64(len(data))
		if int64(len(content)) < end {
			content = append(content, make([]byte, end-int64(len(content)))...)
		}
		copy(content[off:], data)
	}
	for i := range ws {
		w := &ws[i]
		switch decide(w) {
		case 0:
			if !w.durable {
				st.Dropped++
			}
		case 1:
			st.Torn++
			// keep only the first half of the sectors touched by this write
			first := w.off / sector
			last := (w.off + int64(len(w.data)) - 1) / sector
			if last == first {
				// a write inside one sector is atomic: torn = lost
				continue
			}
			mid := (first + last + 1) / 2 * sector
			apply(w.off, w.data[:mid-w.off])
		default:
			apply(w.off, w.data)
		}
	}
	return content
}

func writeImageFile(dst, rel string, content []byte) error {
	p := filepath.Join(dst, rel)
	if err := os.MkdirAll(filepath.Dir(p), 0o755); err != nil {
		return err
	}
	return os.WriteFile(p, content, 0o644)
}
