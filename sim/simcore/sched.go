package simcore

import (
	"bytes"
	"fmt"
	"os"
	"runtime"
	"sort"
	"strconv"
	"strings"
	"sync"
	"sync/atomic"
	"testing/synctest"
	"time"
)

// Sched is a cooperative scheduler for goroutines living in one synctest
// bubble. Tasks (goroutines with a stable logical name) give up control at
// yield points; the scheduler waits for quiescence (synctest.Wait), sorts the
// parked tasks by name and lets the tape pick the one that runs next. Exactly
// one task runs between two decisions.
type Sched struct {
	mu        sync.Mutex
	run       *Run
	parked    map[string]*ptask
	names     map[int64]string
	counters  map[string]int
	live      int
	notify    chan struct{}
	free      bool
	last      string
	switchPct int
	decisions int64
	ended     int64
	maxSteps  int64
	stuck     string
	enabled   map[string]bool
	starve    map[string]int
	liveBy    map[string]int
	maxLiveBy map[string]int
	baseOf    map[int64]string
	// per full name
	liveByName  map[string]int
	maxSameName map[string]int
	fullOf      map[int64]string
}

// StarveSelf keeps the calling task from being scheduled for the next n
// scheduling decisions (unless nothing else can run): a way to hold a task at
// whatever yield point it reaches next while the others make progress.
func (s *Sched) StarveSelf(n int) {
	g := goid()
	s.mu.Lock()
	defer s.mu.Unlock()
	if name, ok := s.names[g]; ok && n > 0 {
		if s.starve == nil {
			s.starve = map[string]int{}
		}
		s.starve[name] = n
	}
}

// MaxLive returns the highest number of simultaneously live tasks with the
// given base name seen so far in this run.
// MaxSameName reports the largest number of goroutines with one and the same
// full name (e.g. "indexer:00") that were alive at the same time.
func (s *Sched) MaxSameName(base string) int {
	s.mu.Lock()
	defer s.mu.Unlock()
	return s.maxSameName[base]
}

func (s *Sched) MaxLive(name string) int {
	s.mu.Lock()
	defer s.mu.Unlock()
	return s.maxLiveBy[name]
}

type ptask struct {
	id    string
	point string
	wake  chan struct{}
	try   func() bool
}

// progress is bumped on every scheduling decision (read by the watchdog).
var progress atomic.Int64

func goid() int64 {
	var buf [64]byte
	n := runtime.Stack(buf[:], false)
	b := buf[10:n] // skip "goroutine "
	i := bytes.IndexByte(b, ' ')
	if i < 0 {
		return -1
	}
	id, _ := strconv.ParseInt(string(b[:i]), 10, 64)
	return id
}

func newSched(r *Run) *Sched {
	return &Sched{
		run:       r,
		parked:    map[string]*ptask{},
		names:     map[int64]string{},
		counters:  map[string]int{},
		notify:    make(chan struct{}, 1),
		switchPct: 100,
		maxSteps:  400000,
	}
}

// SetSwitchPct sets how often (in percent) the next task is drawn uniformly
// among the runnable ones; otherwise the task that ran last continues.
func (s *Sched) SetSwitchPct(p int) { s.switchPct = p }

func (s *Sched) poke() {
	select {
	case s.notify <- struct{}{}:
	default:
	}
}

// TaskName returns the logical name of the calling goroutine ("" if it is not
// a registered task).
func (s *Sched) TaskName() string {
	g := goid()
	s.mu.Lock()
	defer s.mu.Unlock()
	return s.names[g]
}

func (s *Sched) park(point string, try func() bool) {
	g := goid()
	s.mu.Lock()
	if s.free {
		s.mu.Unlock()
		return
	}
	n, ok := s.names[g]
	if !ok {
		s.mu.Unlock()
		return // goroutine not under scheduler control
	}
	if _, dup := s.parked[n]; dup {
		s.mu.Unlock()
		panic("simcore: task parked twice: " + n)
	}
	t := &ptask{id: n, point: point, wake: make(chan struct{}), try: try}
	s.parked[n] = t
	s.mu.Unlock()
	s.poke()
	<-t.wake
}

// optInPoints are yield points that sit inside critical sections of their
// callers in general; they are only honoured by checks that enable them.
var optInPoints = map[string]bool{"multiapp-opened": true, "vlog-held": true}

// EnablePoint turns an opt-in yield point on for this run.
func (s *Sched) EnablePoint(p string) {
	s.mu.Lock()
	if s.enabled == nil {
		s.enabled = map[string]bool{}
	}
	s.enabled[p] = true
	s.mu.Unlock()
}

// Yield is a scheduling point of the calling task.
func (s *Sched) Yield(point string) {
	if optInPoints[point] {
		s.mu.Lock()
		on := s.enabled[point]
		s.mu.Unlock()
		if !on {
			return
		}
	}
	s.park(point, nil)
}

// gateOnly lock gates are not scheduling points of their own: the task only
// parks there when the lock is busy (held by a parked or blocked task).
var gateOnly = map[string]bool{"store.csm-r": true, "store.csm-w": true, "store.singleVLogMu": true, "db.mutex-r": true, "db.mutex-w": true}

// BeforeLock is a scheduling point that is only released while try() holds.
func (s *Sched) BeforeLock(point string, try func() bool) {
	if gateOnly[point] && try() {
		return
	}
	s.park(point, try)
}

// GoStart registers the calling goroutine as task name#k and parks it.
func (s *Sched) GoStart(name string) {
	g := goid()
	s.mu.Lock()
	if s.free {
		s.mu.Unlock()
		return
	}
	s.counters[name]++
	n := fmt.Sprintf("%s#%d", name, s.counters[name])
	s.names[g] = n
	s.live++
	if s.liveBy == nil {
		s.liveBy = map[string]int{}
		s.maxLiveBy = map[string]int{}
		s.baseOf = map[int64]string{}
		s.liveByName = map[string]int{}
		s.maxSameName = map[string]int{}
		s.fullOf = map[int64]string{}
	}
	// "indexer:<prefix>" counts as an "indexer"
	base := name
	if i := strings.IndexByte(base, ':'); i >= 0 {
		base = base[:i]
	}
	s.baseOf[g] = base
	s.liveBy[base]++
	if s.liveBy[base] > s.maxLiveBy[base] {
		s.maxLiveBy[base] = s.liveBy[base]
	}
	// two live goroutines of the same full name (an index restarted while the old goroutine still runs)
	s.liveByName[name]++
	if s.liveByName[name] > s.maxSameName[base] {
		s.maxSameName[base] = s.liveByName[name]
	}
	s.fullOf[g] = name
	s.mu.Unlock()
	s.park("start", nil)
}

// GoEnd unregisters the calling goroutine.
func (s *Sched) GoEnd() {
	g := goid()
	s.mu.Lock()
	if _, ok := s.names[g]; ok {
		delete(s.names, g)
		s.live--
		s.ended++
		s.liveBy[s.baseOf[g]]--
		delete(s.baseOf, g)
		s.liveByName[s.fullOf[g]]--
		delete(s.fullOf, g)
	}
	s.mu.Unlock()
	s.poke()
}

// Go starts f as a scheduled task. A stopRun panic (raised by Run.Violation)
// ends the task silently.
func (s *Sched) Go(name string, f func()) *Task {
	t := &Task{done: make(chan struct{}), s: s}
	go func() {
		s.GoStart(name)
		defer close(t.done)
		defer s.GoEnd()
		defer s.run.recoverTask()
		f()
	}()
	return t
}

// Task is a handle on a harness task.
type Task struct {
	done chan struct{}
	s    *Sched
}

// Join waits for the task to end, then yields (so that the waker and the
// waiter do not run concurrently).
func (t *Task) Join() {
	<-t.done
	t.s.run.Yield("join")
}

// Sleep sleeps on the simulated clock and yields on wake-up.
func (s *Sched) Sleep(d time.Duration) {
	time.Sleep(d)
	s.Yield("after-sleep")
}

// Free switches to free-running mode: every hook becomes a no-op and all
// parked tasks are released. Used for teardown after a violation.
func (s *Sched) Free() {
	s.mu.Lock()
	s.free = true
	for id, t := range s.parked {
		delete(s.parked, id)
		close(t.wake)
	}
	s.mu.Unlock()
	s.poke()
}

// StuckAfter is the simulated time without any runnable task after which the
// run is declared stuck.
const StuckAfter = 6 * time.Hour

// Loop runs the scheduling loop until every registered task has ended. It must
// be called from the bubble's root goroutine. It returns a description of the
// blocked tasks if the run got stuck, "" otherwise.
func (s *Sched) Loop() string {
	idle := 0
	for {
		synctest.Wait()
		s.mu.Lock()
		if s.live == 0 && len(s.parked) == 0 {
			s.mu.Unlock()
			return ""
		}
		if s.free {
			s.mu.Unlock()
			// teardown: just wait for goroutines to finish
			select {
			case <-s.notify:
			case <-time.After(StuckAfter):
				idle++
				if idle > 3 {
					return "teardown did not finish"
				}
			}
			continue
		}
		ids := make([]string, 0, len(s.parked))
		var starved []string
		for id, t := range s.parked {
			if t.try == nil || t.try() {
				if s.starve[id] > 0 {
					starved = append(starved, id)
					continue
				}
				ids = append(ids, id)
			}
		}
		if len(ids) == 0 && len(starved) > 0 {
			// nothing else can run: starvation ends
			ids = starved
			for _, id := range starved {
				delete(s.starve, id)
			}
		}
		for id := range s.starve {
			s.starve[id]--
			if s.starve[id] <= 0 {
				delete(s.starve, id)
			}
		}
		if len(ids) == 0 {
			endedBefore := s.ended
			s.mu.Unlock()
			select {
			case <-s.notify:
				idle = 0
			case <-time.After(StuckAfter):
				s.mu.Lock()
				if s.ended == endedBefore {
					idle++
				}
				if idle >= 2 {
					desc := s.describeLocked()
					s.stuck = desc
					s.mu.Unlock()
					return desc
				}
				s.mu.Unlock()
			}
			continue
		}
		idle = 0
		sort.Strings(ids)
		pick := -1
		if s.last != "" && len(ids) > 1 {
			for i, id := range ids {
				if id == s.last {
					pick = i
				}
			}
		}
		if len(ids) > 1 {
			if pick >= 0 {
				// candidate 0 = keep running the last task
				ids[0], ids[pick] = ids[pick], ids[0]
				sort.Strings(ids[1:])
				if s.switchPct < 100 && s.run.tape.Intn("sched", 100) >= s.switchPct {
					pick = 0
				} else {
					pick = s.run.tape.Intn("sched", len(ids))
				}
			} else {
				pick = s.run.tape.Intn("sched", len(ids))
			}
		} else {
			pick = 0
		}
		id := ids[pick]
		t := s.parked[id]
		delete(s.parked, id)
		if id != s.last {
			s.run.switches++
		}
		s.last = id
		s.decisions++
		s.run.schedHash(id, t.point)
		if s.run.traceSched {
			if n, _ := strconv.Atoi(os.Getenv("VERIF_TRACE_STACKS")); n > 0 && int(s.decisions) == n {
				buf := make([]byte, 1<<20)
				buf = buf[:runtime.Stack(buf, true)]
				s.run.Logf("stacks at decision %d:\n%s", n, buf)
			}
			s.run.Logf("sched #%d %s@%s of %v t=%v", s.decisions, id, t.point, ids, s.run.simNow())
		}
		over := s.decisions > s.maxSteps
		s.mu.Unlock()
		progress.Add(1)
		if over {
			return fmt.Sprintf("step budget exceeded (%d decisions)", s.maxSteps)
		}
		close(t.wake)
	}
}

func (s *Sched) describeLocked() string {
	var ids []string
	for id, t := range s.parked {
		ok := t.try == nil || t.try()
		ids = append(ids, fmt.Sprintf("%s@%s(releasable=%v)", id, t.point, ok))
	}
	sort.Strings(ids)
	var names []string
	for _, n := range s.names {
		names = append(names, n)
	}
	sort.Strings(names)
	// stacks of the blocked goroutines that are inside the system under test
	buf := make([]byte, 1<<20)
	n := runtime.Stack(buf, true)
	var frames []string
	for _, g := range strings.Split(string(buf[:n]), "\n\n") {
		if !strings.Contains(g, "codenotary/immudb") {
			continue
		}
		lines := strings.Split(g, "\n")
		var keep []string
		for i := 0; i < len(lines) && len(keep) < 9; i++ {
			l := lines[i]
			if i == 0 || strings.Contains(l, "codenotary/immudb") || strings.Contains(l, "verifsim/checks") {
				if strings.HasPrefix(l, "\t") {
					continue
				}
				if j := strings.LastIndex(l, "("); j > 0 && i > 0 {
					l = l[:j] // drop the argument list, keep the receiver
				}
				l = strings.TrimPrefix(l, "github.com/codenotary/immudb/")
				keep = append(keep, strings.TrimSpace(l))
			}
		}
		frames = append(frames, strings.Join(keep, " < "))
	}
	sort.Strings(frames)
	return fmt.Sprintf("parked=%v live=%v\nblocked goroutines:\n  %s", ids, names, strings.Join(frames, "\n  "))
}

// Decisions returns the number of scheduling decisions taken so far.
func (s *Sched) Decisions() int64 {
	s.mu.Lock()
	defer s.mu.Unlock()
	return s.decisions
}
