package checks

import (
	"context"
	"fmt"
	"io"
	"net"
	"strings"
	"time"

	"github.com/codenotary/immudb/embedded/logger"
	"github.com/codenotary/immudb/pkg/api/schema"
	"github.com/codenotary/immudb/pkg/server"
	"github.com/codenotary/immudb/pkg/server/sessions"
	"google.golang.org/grpc"
	"google.golang.org/grpc/credentials/insecure"
	"google.golang.org/grpc/metadata"
	"google.golang.org/grpc/test/bufconn"
	"google.golang.org/protobuf/types/known/emptypb"

	"verifsim/simcore"
)

// C13, layer B — SQL transactions through the server's session API.
//
// A real ImmuServer runs in the bubble; several sessions (real gRPC over
// bufconn) run explicit transactions with NewTx / TxSQLExec / TxSQLQuery /
// Commit / Rollback. The body is the only client and advances the sessions one
// statement at a time in seeded order, so the transactions overlap. Sessions
// are also closed, or left idle until the session guard expires them (simulated
// clock), in the middle of a transaction. The recorded transactions go through
// the same oracle as layer A: serial replay in commit order against the
// reference interpreter, no trace of anything that did not commit.

type c13bSess struct {
	name  string
	md    metadata.MD
	txmd  metadata.MD
	cur   *c13Tx
	ro    *c13Tx // a read-only transaction open at the same time in the same session
	romd  metadata.MD
	left  int // statements left in the current transaction
	todo  int // transactions left
	dead  bool
	spSet bool
}

func c13bBody(r *simcore.Run) {
	r.Nontrivial()
	dir := r.Dir("srv-0")
	lis := bufconn.Listen(1 << 20)
	idle := 2 * time.Minute
	so := sessions.DefaultOptions().WithMaxSessionInactivityTime(idle).WithSessionGuardCheckInterval(30 * time.Second).WithTimeout(time.Minute)
	opts := server.DefaultOptions().WithDir(dir).WithAuth(true).WithListener(lis).WithAdminPassword("immudb").
		WithMetricsServer(false).WithWebServer(false).WithPgsqlServer(false).WithSessionOptions(so).WithPidfile("").WithLogfile("")
	srv := server.DefaultServer().WithOptions(opts).WithLogger(logger.NewMemoryLoggerWithLevel(logger.LogError)).(*server.ImmuServer)
	if err := srv.Initialize(); err != nil {
		r.Violation("server-init", "", "Initialize failed: %v", err)
	}
	go srv.GrpcServer.Serve(lis)
	srv.SessManager.StartSessionsGuard()
	conn, err := grpc.NewClient("passthrough:///bufnet",
		grpc.WithContextDialer(func(ctx context.Context, _ string) (net.Conn, error) { return lis.DialContext(ctx) }),
		grpc.WithTransportCredentials(insecure.NewCredentials()))
	r.Must(err, "dial")
	r.Defer(func() {
		conn.Close()
		srv.SessManager.StopSessionsGuard()
		srv.GrpcServer.Stop()
		srv.CloseDatabases()
		lis.Close()
		time.Sleep(2 * time.Second)
	})
	cl := schema.NewImmuServiceClient(conn)
	bg := context.Background()
	call := func(md metadata.MD) (context.Context, context.CancelFunc) {
		ctx, cancel := context.WithTimeout(bg, 30*time.Second)
		return metadata.NewOutgoingContext(ctx, md), cancel
	}
	open := func() metadata.MD {
		resp, err := cl.OpenSession(bg, &schema.OpenSessionRequest{Username: []byte("immudb"), Password: []byte("immudb"), DatabaseName: "db1"})
		if err != nil {
			r.Violation("session", "", "OpenSession failed: %v", err)
		}
		return metadata.Pairs("sessionid", resp.SessionID)
	}
	// setup through a session on defaultdb
	r0, err := cl.OpenSession(bg, &schema.OpenSessionRequest{Username: []byte("immudb"), Password: []byte("immudb"), DatabaseName: "defaultdb"})
	r.Must(err, "admin session")
	actx, acancel := call(metadata.Pairs("sessionid", r0.SessionID))
	_, err = cl.CreateDatabaseV2(actx, &schema.CreateDatabaseRequest{Name: "db1", Settings: c18SmallDB()})
	acancel()
	r.Must(err, "create db1")
	obs := open()
	ctx, cancel := call(obs)
	_, err = cl.SQLExec(ctx, &schema.SQLExecRequest{Sql: "CREATE TABLE acc (id INTEGER, v INTEGER, PRIMARY KEY id)"})
	cancel()
	r.Must(err, "create table")
	ctx, cancel = call(obs)
	_, err = cl.SQLExec(ctx, &schema.SQLExecRequest{Sql: "CREATE TABLE log (id INTEGER AUTO_INCREMENT, s VARCHAR[32], PRIMARY KEY id)"})
	cancel()
	r.Must(err, "create table log")
	marks := map[*c13Tx][]string{} // rows each transaction appended to log
	lastPK := map[*c13Tx]int64{}   // generated key COMMIT reported for log
	nMark := 0

	scan := func(md metadata.MD) ([]string, error) {
		ctx, cancel := call(md)
		defer cancel()
		res, err := cl.UnarySQLQuery(ctx, &schema.SQLQueryRequest{Sql: "SELECT id, v FROM acc"})
		if err != nil {
			return nil, err
		}
		return c13bRows(res), nil
	}

	nSess := 2 + r.Intn(2)
	var ss []*c13bSess
	for i := 0; i < nSess; i++ {
		ss = append(ss, &c13bSess{name: fmt.Sprintf("s%d", i), md: open(), todo: 1 + r.Intn(3)})
	}
	var all []*c13Tx
	var observed [][]string
	end := func(s *c13bSess, outcome string) {
		s.cur.Outcome = outcome
		r.Logf("%s", c13Dump(s.cur))
		s.cur, s.txmd, s.spSet = nil, nil, false
	}
	endRO := func(s *c13bSess) {
		if s.ro != nil {
			s.ro.Outcome = "rolledback"
			r.Logf("%s", c13Dump(s.ro))
			s.ro, s.romd = nil, nil
		}
	}
	query := func(md metadata.MD) ([]string, error) {
		ctx, cancel := call(md)
		defer cancel()
		stream, err := cl.TxSQLQuery(ctx, &schema.SQLQueryRequest{Sql: "SELECT id, v FROM acc"})
		var rows []string
		for err == nil {
			var res *schema.SQLQueryResult
			res, err = stream.Recv()
			if err == nil {
				rows = append(rows, c13bRows(res)...)
			}
		}
		if err != io.EOF {
			return nil, err
		}
		return rows, nil
	}
	// one step of the session's read-only transaction, which lives next to its
	// read-write one and begins and ends independently of it
	roStep := func(s *c13bSess) {
		switch {
		case s.ro == nil:
			ctx, cancel := call(s.md)
			resp, err := cl.NewTx(ctx, &schema.NewTxRequest{Mode: schema.TxMode_ReadOnly})
			cancel()
			if err != nil {
				if !strings.Contains(err.Error(), "session not found") {
					r.Violation("newtx", "", "%s: NewTx (read-only) failed: %v", s.name, err)
				}
				return
			}
			s.ro = &c13Tx{Session: s.name + "/ro"}
			all = append(all, s.ro)
			s.romd = metadata.Join(s.md, metadata.Pairs("transactionid", resp.TransactionID))
		case r.Pct(60):
			st := c13Stmt{Kind: "sel", SQL: "SELECT id, v FROM acc", Affected: -1}
			rows, err := query(s.romd)
			if err != nil {
				r.Violation("stmt-error", "", "%s: query in the read-only transaction failed: %v", s.name, err)
			}
			st.Rows = rows
			s.ro.Stmts = append(s.ro.Stmts, st)
		default:
			ctx, cancel := call(s.romd)
			_, err := cl.Rollback(ctx, &emptypb.Empty{})
			cancel()
			if err != nil {
				r.Violation("rollback", "", "%s: ROLLBACK of the read-only transaction failed: %v", s.name, err)
			}
			endRO(s)
		}
	}
	for steps := 0; steps < 400; steps++ {
		var live []*c13bSess
		for _, s := range ss {
			if !s.dead && (s.todo > 0 || s.cur != nil) {
				live = append(live, s)
			}
		}
		if len(live) == 0 {
			break
		}
		if r.Pct(10) {
			if rows, err := scan(obs); err == nil {
				observed = append(observed, rows)
			} else if strings.Contains(err.Error(), "session not found") {
				obs = open()
			}
		}
		s := live[r.Intn(len(live))]
		if r.Pct(20) {
			roStep(s)
			continue
		}
		if s.cur == nil {
			// begin
			ctx, cancel := call(s.md)
			resp, err := cl.NewTx(ctx, &schema.NewTxRequest{Mode: schema.TxMode_ReadWrite})
			cancel()
			s.todo--
			if err != nil {
				if strings.Contains(err.Error(), "session not found") {
					s.dead = true
					continue
				}
				r.Violation("newtx", "", "%s: NewTx failed: %v", s.name, err)
			}
			s.cur = &c13Tx{Session: s.name}
			all = append(all, s.cur)
			s.txmd = metadata.Join(s.md, metadata.Pairs("transactionid", resp.TransactionID))
			s.left = 1 + r.Intn(5)
			continue
		}
		// the session dies in the middle of the transaction: nothing of it may stay
		if r.Pct(5) {
			if r.Bool() {
				ctx, cancel := call(s.md)
				cl.CloseSession(ctx, &emptypb.Empty{})
				cancel()
				r.Fault("session-closed-mid-transaction")
			} else {
				// everybody else keeps its session alive meanwhile
				for t := time.Duration(0); t < idle+time.Minute; t += 30 * time.Second {
					time.Sleep(30 * time.Second)
					for _, o := range ss {
						if o != s && !o.dead {
							ctx, cancel := call(o.md)
							cl.KeepAlive(ctx, &emptypb.Empty{})
							cancel()
						}
					}
					ctx, cancel := call(obs)
					cl.KeepAlive(ctx, &emptypb.Empty{})
					cancel()
				}
				r.Fault("session-expired-mid-transaction")
			}
			ctx, cancel := call(s.txmd)
			_, err := cl.Commit(ctx, &emptypb.Empty{})
			cancel()
			if err == nil {
				r.Violation("atomicity", "commit-after-session-end", "%s: COMMIT succeeded on a transaction whose session had been closed or had expired\n  program: %s", s.name, c13Dump(s.cur))
			}
			end(s, "rolledback")
			if s.ro != nil {
				if _, err := query(s.romd); err == nil {
					r.Violation("atomicity", "query-after-session-end", "%s: a query succeeded in a read-only transaction whose session had been closed or had expired", s.name)
				}
				endRO(s)
			}
			s.dead = true
			continue
		}
		if s.left == 0 {
			if r.Pct(25) {
				ctx, cancel := call(s.txmd)
				_, err := cl.Rollback(ctx, &emptypb.Empty{})
				cancel()
				if err != nil && !strings.Contains(err.Error(), "session not found") {
					r.Violation("rollback", "", "%s: ROLLBACK failed: %v", s.name, err)
				}
				end(s, "rolledback")
				continue
			}
			ctx, cancel := call(s.txmd)
			resp, err := cl.Commit(ctx, &emptypb.Empty{})
			cancel()
			if err != nil {
				if !isBenignTxErr(err) && !strings.Contains(err.Error(), "read conflict") && !strings.Contains(err.Error(), "no entries") && !strings.Contains(err.Error(), "session not found") {
					r.Violation("commit-error", "", "%s: COMMIT failed: %v\n  program: %s", s.name, err, c13Dump(s.cur))
				}
				end(s, "failed")
				continue
			}
			if resp.Header != nil {
				s.cur.TxID = resp.Header.Id
				// what COMMIT reports for the whole transaction: affected rows, generated keys
				s.cur.HasTotal, s.cur.Total = true, int(resp.UpdatedRows)
				if pk, ok := resp.LastInsertedPKs["log"]; ok {
					lastPK[s.cur] = pk.GetN()
				} else if len(marks[s.cur]) > 0 {
					r.Violation("generated-keys", "", "%s: COMMIT reports no generated key for table log although the transaction inserted %d rows into it\n  program: %s", s.name, len(marks[s.cur]), c13Dump(s.cur))
				}
				end(s, "committed")
			} else {
				end(s, "rolledback") // nothing was written
			}
			continue
		}
		s.left--
		id, v := r.Intn(5), r.Intn(100)
		var st c13Stmt
		switch w := r.Intn(11); {
		case w == 10:
			n := 1 + r.Intn(3)
			var vals []string
			for i := 0; i < n; i++ {
				nMark++
				m := fmt.Sprintf("m%d", nMark)
				marks[s.cur] = append(marks[s.cur], m)
				vals = append(vals, "('"+m+"')")
			}
			st = c13Stmt{Kind: "log", V: n, SQL: "INSERT INTO log (s) VALUES " + strings.Join(vals, ", ")}
		case w < 3:
			st = c13Stmt{Kind: "ins", ID: id, V: v, SQL: fmt.Sprintf("INSERT INTO acc (id, v) VALUES (%d, %d)", id, v)}
		case w < 5:
			st = c13Stmt{Kind: "upd", ID: id, V: v, SQL: fmt.Sprintf("UPDATE acc SET v = %d WHERE id = %d", v, id)}
		case w < 6:
			st = c13Stmt{Kind: "del", ID: id, SQL: fmt.Sprintf("DELETE FROM acc WHERE id = %d", id)}
		default:
			st = c13Stmt{Kind: "sel", SQL: "SELECT id, v FROM acc"}
		}
		st.Affected = -1 // TxSQLExec does not report it
		if st.Kind == "sel" {
			rows, err := query(s.txmd)
			if err != nil {
				st.Err = err.Error()
				s.cur.Stmts = append(s.cur.Stmts, st)
				if !isBenignTxErr(err) {
					r.Violation("stmt-error", "", "%s: %q failed inside a transaction: %v", s.name, st.SQL, err)
				}
				end(s, "failed")
				continue
			}
			st.Rows = rows
			s.cur.Stmts = append(s.cur.Stmts, st)
			continue
		}
		ctx, cancel := call(s.txmd)
		_, err := cl.TxSQLExec(ctx, &schema.SQLExecRequest{Sql: st.SQL})
		cancel()
		if err != nil {
			st.Err = err.Error()
			s.cur.Stmts = append(s.cur.Stmts, st)
			if !isConstraintErr(err) && !isBenignTxErr(err) && !strings.Contains(err.Error(), "key already exists") {
				r.Violation("stmt-error", "", "%s: %q failed inside a transaction: %v", s.name, st.SQL, err)
			}
			// like layer A: a failed statement ends the transaction
			rctx, rcancel := call(s.txmd)
			cl.Rollback(rctx, &emptypb.Empty{})
			rcancel()
			end(s, "failed")
			continue
		}
		s.cur.Stmts = append(s.cur.Stmts, st)
	}
	for _, s := range ss {
		if s.cur != nil {
			ctx, cancel := call(s.txmd)
			cl.Rollback(ctx, &emptypb.Empty{})
			cancel()
			end(s, "rolledback")
		}
		if s.ro != nil {
			ctx, cancel := call(s.romd)
			cl.Rollback(ctx, &emptypb.Empty{})
			cancel()
			endRO(s)
		}
	}
	obs = open()
	final, err := scan(obs)
	if err != nil {
		r.Violation("scan-error", "", "final scan failed: %v", err)
	}
	var frows [][]string
	for _, row := range final {
		kv := strings.SplitN(row, "=", 2)
		frows = append(frows, kv)
	}
	c13Analyse(r, all, observed, frows)
	// the second table: rows of committed transactions are all there, under the
	// generated keys COMMIT reported; nothing of the others
	ctx, cancel = call(obs)
	lres, err := cl.UnarySQLQuery(ctx, &schema.SQLQueryRequest{Sql: "SELECT id, s FROM log"})
	cancel()
	if err != nil {
		r.Violation("scan-error", "", "final scan of log failed: %v", err)
	}
	idOf := map[string]int64{}
	for _, row := range lres.Rows {
		if len(row.Values) == 2 {
			idOf[row.Values[1].GetS()] = row.Values[0].GetN()
		}
	}
	for _, t := range all {
		for i, m := range marks[t] {
			id, there := idOf[m]
			if t.Outcome != "committed" {
				if there {
					r.Violation("atomicity", "log", "row %q of a transaction that did not commit (%s) is in table log\n  program: %s", m, t.Outcome, c13Dump(t))
				}
				continue
			}
			if !there {
				r.Violation("atomicity", "log", "row %q of committed transaction %d is missing from table log\n  program: %s", m, t.TxID, c13Dump(t))
			}
			if i == len(marks[t])-1 && lastPK[t] != id {
				r.Violation("generated-keys", "", "COMMIT of transaction %d reported generated key %d for table log, its last inserted row %q has id %d\n  program: %s", t.TxID, lastPK[t], m, id, c13Dump(t))
			}
		}
	}
	nc, nro := 0, 0
	for _, t := range all {
		if t.Outcome == "committed" {
			nc++
		}
		if strings.HasSuffix(t.Session, "/ro") {
			nro++
		}
	}
	r.Sig("c13b", len(all), nSess, nc, nro, nMark)
	r.Sample(map[string]interface{}{"layer": "server session API", "sessions": nSess, "transactions": len(all), "committed": nc, "read_only": nro, "rows_with_generated_keys": nMark})
}

// c13bRows renders a query result as "id=v" strings (like c13Render).
func c13bRows(res *schema.SQLQueryResult) []string {
	var out []string
	for _, row := range res.Rows {
		if len(row.Values) != 2 {
			continue
		}
		out = append(out, fmt.Sprintf("%d=%d", row.Values[0].GetN(), row.Values[1].GetN()))
	}
	return out
}
