package checks

import (
	"context"
	"errors"
	"fmt"
	"sort"
	"strings"
	"time"

	"github.com/codenotary/immudb/embedded/store"
	"github.com/codenotary/immudb/embedded/tbtree"

	"verifsim/simcore"
)

// C05 — read-write transactions are serializable in commit order (MVCC).
//
// Concurrent transaction programs (gets, range scans with early termination,
// sets, deletes) run under the scheduler together with write-only committers;
// every read result is recorded. Afterwards the committed transactions are
// replayed serially in tx-id order against a key-value model: every recorded
// read of transaction n (other than of its own writes) must equal the model's
// answer on the state produced by ids < n; read-only transactions must have
// observed one single committed state.

func init() {
	register(&simcore.Check{ID: "C05", Bubble: true, Liveness: true, Body: c05Body})
}

type c05Op struct {
	Kind   string   // get | gwp | scan | set | del | mark
	Key    string   // get/set/del
	Val    string   // set
	Seek   string   // scan
	Desc   bool     // scan
	IncS   bool     // scan: inclusive seek
	Max    int      // scan: entries requested
	Off    int      // scan: reader offset
	Neq    string   // gwp: excluded key
	Found  bool     // get result
	Got    string   // get result value
	Keys   []string // scan result keys
	Vals   []string // scan result values
	Ended  bool     // scan reached the end
	Failed string   // set/del error
	Lo, Hi uint64   // mark: committed frontier before and after the call
}

type c05Tx struct {
	Task     string
	ReadOnly bool
	Ops      []c05Op
	ID       uint64 // 0 = not committed
	Outcome  string
	StartN   uint64 // committed frontier when the tx started
	EndN     uint64 // committed frontier when the tx ended
}

var c05Keys = []string{"k0", "k1", "k2", "k3", "k4", "k5", "k6"}

func c05Body(r *simcore.Run) {
	cfg := genStCfg(r, false)
	cfg.Comp = 0
	cfg.Prealloc = false
	cfg.MaxConc = 30
	cfg.sig(r)
	r.Logf("cfg %+v", cfg)
	dir := r.Dir("st-0")
	e := newStoreEnv(r, cfg, dir)
	if err := e.open(); err != nil {
		r.Violation("open-new", "", "cannot open a new store: %v", err)
	}
	r.Sched.SetSwitchPct(r.Pick(100, 100, 50, 20))
	var txs []*c05Tx
	nTasks := 2 + r.Intn(4)
	per := 1 + r.Intn(5)
	var tasks []*simcore.Task
	for t := 0; t < nTasks; t++ {
		name := fmt.Sprintf("p%d", t)
		tasks = append(tasks, r.Sched.Go(name, func() {
			for i := 0; i < per; i++ {
				tx := e.c05Program(name, i)
				e.mu.Lock()
				txs = append(txs, tx)
				e.mu.Unlock()
				r.Yield("c05-between-tx")
			}
		}))
	}
	if r.Pct(60) {
		// write-only committers over the same keys
		tasks = append(tasks, r.Sched.Go("w", func() {
			for i := 0; i < 1+r.Intn(6); i++ {
				r.Yield("c05-writer")
				tx, err := e.st.NewWriteOnlyTx(context.Background())
				if err != nil {
					continue
				}
				k := c05Keys[r.Intn(len(c05Keys))]
				v := e.uniqueValue("w", 20)
				var md *store.KVMetadata
				if r.Pct(25) {
					// an entry that is expired from the start: for every read with the default
					// filters the key is absent, exactly as after a delete
					md = store.NewKVMetadata()
					md.ExpiresAt(time.Now().Add(-time.Hour))
					r.Probe("c05-expired-entry-written")
				}
				tx.Set([]byte(k), md, v)
				le := entryFromSpec([]byte(k), v, md)
				hdr, err := tx.Commit(context.Background())
				if err != nil {
					e.failed([]ledEntry{le}, err)
					continue
				}
				e.ack(hdr, []ledEntry{le})
			}
		}))
	}
	if r.Pct(40) {
		tasks = append(tasks, r.Sched.Go("maint", func() { e.maintenance(1 + r.Intn(3)) }))
	}
	for _, t := range tasks {
		t.Join()
	}
	n := e.verifyHistory("end", true)

	// serial replay in commit order
	type state map[string]*string // nil value = deleted
	states := make([]state, n+1)
	cur := state{}
	states[0] = state{}
	byID := map[uint64]*c05Tx{}
	for _, tx := range txs {
		if tx.ID != 0 {
			byID[tx.ID] = tx
		}
	}
	answerGet := func(s state, overlay state, k string) (bool, string) {
		if v, ok := overlay[k]; ok {
			if v == nil {
				return false, ""
			}
			return true, *v
		}
		if v, ok := s[k]; ok && v != nil {
			return true, *v
		}
		return false, ""
	}
	answerScan := func(s state, overlay state, op *c05Op) ([]string, []string) {
		merged := map[string]*string{}
		for k, v := range s {
			merged[k] = v
		}
		for k, v := range overlay {
			merged[k] = v
		}
		var keys []string
		for k, v := range merged {
			if v == nil || !strings.HasPrefix(k, "k") {
				continue
			}
			if op.Desc {
				if k > op.Seek || (k == op.Seek && !op.IncS) {
					continue
				}
			} else {
				if k < op.Seek || (k == op.Seek && !op.IncS) {
					continue
				}
			}
			keys = append(keys, k)
		}
		sort.Strings(keys)
		if op.Desc {
			sort.Sort(sort.Reverse(sort.StringSlice(keys)))
		}
		if op.Off > 0 {
			keys = keys[min(op.Off, len(keys)):]
		}
		var vals []string
		for _, k := range keys {
			vals = append(vals, *merged[k])
		}
		return keys, vals
	}
	// GetWithPrefix(prefix, neq) as the index defines it on one state: the first entry (tombstones
	// included) whose key is >= prefix and > neq; found if it carries the prefix and is not deleted
	answerGwp := func(s state, overlay state, op *c05Op) (bool, string, string) {
		merged := map[string]*string{}
		for k, v := range s {
			merged[k] = v
		}
		for k, v := range overlay {
			merged[k] = v
		}
		var ks []string
		for k := range merged {
			ks = append(ks, k)
		}
		sort.Strings(ks)
		for _, k := range ks {
			if k < op.Key || (op.Neq != "" && k <= op.Neq) {
				continue
			}
			if !strings.HasPrefix(k, op.Key) || merged[k] == nil {
				return false, "", ""
			}
			return true, k, *merged[k]
		}
		return false, "", ""
	}
	// check returns "" if every read of tx equals the answer on base state s
	check := func(tx *c05Tx, s state) string {
		overlay := state{}
		for i := range tx.Ops {
			op := &tx.Ops[i]
			switch op.Kind {
			case "get":
				f, v := answerGet(s, overlay, op.Key)
				if f != op.Found || (f && v != op.Got) {
					return fmt.Sprintf("op %d Get(%q) returned (found=%v,%q), serial execution gives (found=%v,%q)", i, op.Key, op.Found, op.Got, f, v)
				}
			case "gwp":
				f, k, v := answerGwp(s, overlay, op)
				if f != op.Found || (f && (k+"="+v) != op.Got) {
					return fmt.Sprintf("op %d GetWithPrefix(%q, except %q) returned (found=%v,%q), serial execution gives (found=%v,%q)", i, op.Key, op.Neq, op.Found, op.Got, f, k+"="+v)
				}
			case "scan":
				keys, vals := answerScan(s, overlay, op)
				if len(op.Keys) > len(keys) {
					return fmt.Sprintf("op %d scan(seek %q desc=%v) returned %q, serial execution gives %q", i, op.Seek, op.Desc, op.Keys, keys)
				}
				for j := range op.Keys {
					if op.Keys[j] != keys[j] || op.Vals[j] != vals[j] {
						return fmt.Sprintf("op %d scan(seek %q desc=%v) returned %q/%q, serial execution gives %q/%q", i, op.Seek, op.Desc, op.Keys, op.Vals, keys, vals)
					}
				}
				if op.Ended && len(op.Keys) != len(keys) {
					return fmt.Sprintf("op %d scan(seek %q desc=%v) ended after %q, serial execution gives %q", i, op.Seek, op.Desc, op.Keys, keys)
				}
			case "mark":
				content := func(st state) string {
					var kv []string
					for k, v := range st {
						if v != nil && strings.HasPrefix(k, "k") {
							kv = append(kv, k+"="+*v)
						}
					}
					sort.Strings(kv)
					return strings.Join(kv, ",")
				}
				same := false
				for j := op.Lo; j <= op.Hi && !same; j++ {
					if int(j) < len(states) && states[j] != nil {
						same = content(states[j]) == content(s)
					}
				}
				if !same {
					return fmt.Sprintf("op %d marked the key space as scanned when the committed frontier was between %d and %d; its content changed before the commit position, yet the transaction committed", i, op.Lo, op.Hi)
				}
			case "set":
				if op.Failed == "" {
					v := op.Val
					overlay[op.Key] = &v
				}
			case "del":
				if op.Failed == "" {
					overlay[op.Key] = nil
				}
			}
		}
		return ""
	}
	for id := uint64(1); id <= n; id++ {
		if tx := byID[id]; tx != nil {
			if why := check(tx, cur); why != "" {
				c05IdxViol(r, "not-serializable", "transaction %d (task %s) is not serializable in commit order: %s\n  program: %+v", id, tx.Task, why, tx.Ops)
			}
		}
		lt := e.led[id]
		if lt == nil {
			r.Violation("phantom-tx", "", "tx %d is committed but was never acknowledged", id)
		}
		next := state{}
		for k, v := range cur {
			next[k] = v
		}
		for _, le := range lt.Entries {
			if le.Deleted || le.ExpiresAt != 0 {
				// (expirable entries are only written already expired)
				next[string(le.Key)] = nil
			} else {
				v := string(le.Value)
				next[string(le.Key)] = &v
			}
		}
		cur = next
		states[id] = cur
	}
	// transactions that did not commit must have left no trace: implied by the
	// ledger check (every committed id is an acknowledged commit)
	for _, tx := range txs {
		if tx.ID != 0 || len(tx.Ops) == 0 {
			continue
		}
		if !tx.ReadOnly {
			continue
		}
		// a read-only transaction observed one committed state
		ok := false
		var why string
		for j := tx.StartN; j <= tx.EndN && j <= n; j++ {
			if why = check(tx, states[j]); why == "" {
				ok = true
				break
			}
		}
		// the snapshot may be staler than the frontier at start (indexing lag)
		for j := uint64(0); !ok && j < tx.StartN; j++ {
			if check(tx, states[j]) == "" {
				ok = true
				r.Probe("c05-readonly-stale-snapshot")
			}
		}
		if !ok {
			c05IdxViol(r, "inconsistent-snapshot", "read-only transaction of task %s observed no single committed state between tx %d and %d: %s\n  program: %+v", tx.Task, tx.StartN, tx.EndN, why, tx.Ops)
		}
	}
	committed := 0
	conflicts := 0
	for _, tx := range txs {
		if tx.ID != 0 {
			committed++
		}
		if tx.Outcome == "conflict" {
			conflicts++
			r.Probe("c05-read-conflict")
		}
	}
	e.st.Close()
	r.Sig("c05", committed, conflicts)
	r.Sample(map[string]interface{}{"config": cfg, "programs": len(txs), "committed": committed, "read_conflicts": conflicts, "example": txs[0]})
}

// c05Program runs one transaction program and records what it observed.
func (e *storeEnv) c05Program(task string, idx int) *c05Tx {
	r := e.r
	ctx := context.Background()
	rec := &c05Tx{Task: task}
	rec.StartN, _ = e.st.CommittedAlh()
	rec.ReadOnly = r.Pct(15)
	opts := store.DefaultTxOptions()
	if rec.ReadOnly {
		opts = opts.WithMode(store.ReadOnlyTx)
	}
	tx, err := e.st.NewTx(ctx, opts)
	if err != nil {
		if errors.Is(err, store.ErrMaxConcurrencyLimitExceeded) || errors.Is(err, tbtree.ErrorToManyActiveSnapshots) {
			rec.Outcome = "not-started"
			return rec
		}
		r.Violation("newtx", "", "NewTx failed: %v", err)
	}
	nops := 1 + r.Intn(6)
	var entries []ledEntry
	written := map[string]bool{}
	for i := 0; i < nops; i++ {
		r.Yield("c05-op")
		k := c05Keys[r.Intn(len(c05Keys))]
		w := r.Intn(10)
		if rec.ReadOnly && w >= 6 {
			w = r.Intn(6)
		}
		if i == 0 && !rec.ReadOnly && r.Pct(15) {
			// the whole key space is marked as scanned (a fingerprint of its content joins
			// the read set) before anything else is read or written
			op := c05Op{Kind: "mark"}
			op.Lo = e.st.LastCommittedTxID()
			err := tx.MarkPrefixScanned(ctx, store.KeyReaderSpec{Prefix: []byte("k"), Filters: []store.FilterFn{store.IgnoreDeleted, store.IgnoreExpired}})
			op.Hi = e.st.LastCommittedTxID()
			if err != nil {
				tx.Cancel()
				c05IdxViol(r, "tx-reader", "MarkPrefixScanned inside a transaction failed: %v", err)
			}
			rec.Ops = append(rec.Ops, op)
			r.Probe("c05-prefix-marked")
			continue
		}
		switch {
		case w < 4:
			op := c05Op{Kind: "get", Key: k}
			ref, err := tx.Get(ctx, []byte(k))
			if err == nil && ref.KVMetadata() != nil && ref.KVMetadata().Deleted() {
				// Get on a key deleted earlier by this transaction returns the
				// transaction's own tombstone (the deleted filter is applied before
				// the own writes are overlaid): the caller sees "deleted"
				r.Probe("c05-get-returns-own-tombstone")
				err = store.ErrKeyNotFound
			}
			if err == nil {
				v, rerr := ref.Resolve()
				if rerr != nil {
					tx.Cancel()
					r.Violation("read-value", "", "Get(%q) inside a transaction: value unreadable: %v", k, rerr)
				}
				op.Found, op.Got = true, string(v)
			} else if !errors.Is(err, store.ErrKeyNotFound) {
				tx.Cancel()
				c05IdxViol(r, "tx-get", "Get(%q) inside a transaction failed: %v", k, err)
			}
			rec.Ops = append(rec.Ops, op)
		case w < 6:
			if r.Pct(20) {
				// the first live key with a prefix, one key excluded
				op := c05Op{Kind: "gwp", Key: []string{"k", k}[r.Intn(2)], Neq: c05Keys[r.Intn(len(c05Keys))]}
				kk, ref, err := tx.GetWithPrefix(ctx, []byte(op.Key), []byte(op.Neq))
				if err == nil && ref.KVMetadata() != nil && ref.KVMetadata().Deleted() {
					// as for Get: the transaction's own tombstone comes back as an entry marked deleted
					r.Probe("c05-get-returns-own-tombstone")
					err = store.ErrKeyNotFound
				}
				if err == nil {
					v, rerr := ref.Resolve()
					if rerr != nil {
						tx.Cancel()
						r.Violation("read-value", "", "GetWithPrefix(%q) inside a transaction: value unreadable: %v", op.Key, rerr)
					}
					op.Found, op.Got = true, string(kk)+"="+string(v)
				} else if !errors.Is(err, store.ErrKeyNotFound) {
					tx.Cancel()
					c05IdxViol(r, "tx-get", "GetWithPrefix(%q, %q) inside a transaction failed: %v", op.Key, op.Neq, err)
				}
				rec.Ops = append(rec.Ops, op)
				r.Probe("c05-get-with-prefix")
				continue
			}
			op := c05Op{Kind: "scan", Seek: k, Desc: r.Bool(), IncS: r.Bool(), Max: 1 + r.Intn(5), Off: r.Pick(0, 0, 1, 2)}
			rd, err := tx.NewKeyReader(store.KeyReaderSpec{Prefix: []byte("k"), SeekKey: []byte(k), DescOrder: op.Desc, InclusiveSeek: op.IncS, Offset: uint64(op.Off), Filters: []store.FilterFn{store.IgnoreDeleted, store.IgnoreExpired}})
			if err != nil {
				tx.Cancel()
				c05IdxViol(r, "tx-reader", "NewKeyReader inside a transaction failed: %v", err)
			}
			for len(op.Keys) < op.Max {
				kk, ref, err := rd.Read(ctx)
				if errors.Is(err, store.ErrNoMoreEntries) {
					op.Ended = true
					break
				}
				if err != nil {
					rd.Close()
					tx.Cancel()
					c05IdxViol(r, "tx-reader", "reader inside a transaction failed: %v", err)
				}
				v, rerr := ref.Resolve()
				if rerr != nil {
					rd.Close()
					tx.Cancel()
					r.Violation("read-value", "", "scan inside a transaction: value of %q unreadable: %v", kk, rerr)
				}
				op.Keys = append(op.Keys, string(kk))
				op.Vals = append(op.Vals, string(v))
				r.Yield("c05-scan-step")
				if len(op.Keys) == 1 && !op.Ended && r.Pct(20) && len(rec.Ops) < 12 {
					// the reader is rewound: it starts over with the same specification (offset included),
					// as the reader of a read-only snapshot does; what it returns from here on is a scan of its own
					if err := rd.Reset(); err != nil {
						if errors.Is(err, store.ErrMVCCReadSetLimitExceeded) {
							break
						}
						rd.Close()
						tx.Cancel()
						c05IdxViol(r, "tx-reader", "Reset of a reader inside a transaction failed: %v", err)
					}
					rec.Ops = append(rec.Ops, op)
					op = c05Op{Kind: "scan", Seek: op.Seek, Desc: op.Desc, IncS: op.IncS, Max: op.Max, Off: op.Off}
					r.Probe("c05-reader-reset")
				}
			}
			rd.Close()
			rec.Ops = append(rec.Ops, op)
		case w < 9:
			if written[k] {
				continue
			}
			v := e.uniqueValue(task, 24)
			op := c05Op{Kind: "set", Key: k, Val: string(v)}
			if err := tx.Set([]byte(k), nil, v); err != nil {
				op.Failed = err.Error()
			} else {
				written[k] = true
				entries = append(entries, ledEntry{Key: []byte(k), Value: v})
			}
			rec.Ops = append(rec.Ops, op)
		default:
			if written[k] {
				continue
			}
			op := c05Op{Kind: "del", Key: k}
			if err := tx.Delete(ctx, []byte(k)); err != nil {
				op.Failed = err.Error()
			} else {
				written[k] = true
				md := store.NewKVMetadata()
				md.AsDeleted(true)
				entries = append(entries, entryFromSpec([]byte(k), nil, md))
			}
			rec.Ops = append(rec.Ops, op)
		}
	}
	r.Yield("c05-before-commit")
	if rec.ReadOnly || len(entries) == 0 || r.Pct(10) {
		tx.Cancel()
		rec.Outcome = "cancelled"
		rec.EndN, _ = e.st.CommittedAlh()
		return rec
	}
	hdr, err := tx.Commit(ctx)
	rec.EndN, _ = e.st.CommittedAlh()
	if err != nil {
		if hdr != nil {
			rec.ID = hdr.ID
			e.ack(hdr, entries)
			rec.Outcome = "committed"
			return rec
		}
		if errors.Is(err, store.ErrTxReadConflict) {
			rec.Outcome = "conflict"
		} else {
			rec.Outcome = "error: " + err.Error()
		}
		e.failed(entries, err)
		return rec
	}
	rec.ID = hdr.ID
	rec.Outcome = "committed"
	e.ack(hdr, entries)
	r.Logf("%s: tx %d committed (%d ops)", task, hdr.ID, len(rec.Ops))
	return rec
}

// c05IdxViol reports an anomaly of reads that go through the index. If two
// indexing goroutines of the index were alive at the same time in this run
// (the structural precondition of the known compaction-restart defect), it is
// attributed to that finding, otherwise it is a violation.
func c05IdxViol(r *simcore.Run, class, format string, args ...interface{}) {
	if r.Sched != nil && r.Sched.MaxSameName("indexer") > 1 {
		r.Finding(class, "C04:indexer-overlap-after-compaction", "two indexing goroutines ran concurrently on the index after CompactIndexes restarted it; then: "+format, args...)
		r.EndRun()
	}
	r.Violation(class, "", format, args...)
}
