package checks

import (
	"fmt"
	"os"
	"sort"
	"testing"

	"verifsim/simcore"
)

var registry = map[string]*simcore.Check{}

func register(c *simcore.Check) { registry[c.ID] = c }

// TestCheck is the single entry point: VERIF_PROP selects the check, the rest
// of the VERIF_* environment drives simcore.Worker.
func TestCheck(t *testing.T) {
	id := os.Getenv("VERIF_PROP")
	if id == "" {
		var ids []string
		for k := range registry {
			ids = append(ids, k)
		}
		sort.Strings(ids)
		fmt.Println("registered checks:", ids)
		t.Skip("VERIF_PROP not set")
	}
	c, ok := registry[id]
	if !ok {
		fmt.Printf("unknown check %q\n", id)
		os.Exit(2)
	}
	simcore.Worker(t, c)
}
