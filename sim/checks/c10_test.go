package checks

import (
	"bytes"
	"errors"
	"fmt"
	"os"
	"sort"
	"strings"

	"github.com/codenotary/immudb/embedded/logger"
	"github.com/codenotary/immudb/embedded/tbtree"

	"verifsim/simcore"
)

// C10 — timed B-tree equals a multi-version ordered map; snapshots are immutable.
//
// System: real tbtree.TBtree on real files under the shadow disk (fake clock
// through the synctest bubble for the snapshot renewal period).
// Model: key -> list of (value, ts); one immutable copy of the model per
// logical time, so that a snapshot can be compared with the state it pinned.

func init() {
	register(&simcore.Check{ID: "C10", Bubble: true, Body: c10Body})
}

type c10Cfg struct {
	MaxKey, MaxVal, NodeSize                    int
	Cache, FlushThld, SyncThld, MaxBuffered     int
	MaxSnaps, CompactThld, FileSize, CleanupPct int
	RenewMs                                     int
}

type c10Ver struct {
	V  []byte
	Ts uint64
}

type c10Model map[string][]c10Ver

func (m c10Model) clone() c10Model {
	o := make(c10Model, len(m))
	for k, v := range m {
		o[k] = v // version slices are append-only: sharing the backing array is safe with the cap trick below
	}
	return o
}

type c10Snap struct {
	s     *tbtree.Snapshot
	state c10Model
	ts    uint64
}

type c10State struct {
	r      *simcore.Run
	cfg    c10Cfg
	dir    string
	t      *tbtree.TBtree
	m      c10Model
	ts     uint64
	states map[uint64]c10Model
	snaps  []*c10Snap
	keys   []string
	seq    int
	ops    []string

	syncedTs    uint64 // logical time covered by the last synced flush
	compactedTs uint64 // logical time of a completed compaction not yet loaded by a restart
	compacted   bool
	crashedOnce bool
	postCrash   bool // the first recovery has been validated; the tree runs on a crash image
	incarn      int
	prevStart   int
	opStart     int
	prevSync    uint64
	curSync     uint64
}

func (s *c10State) logOp(f string, a ...interface{}) {
	l := fmt.Sprintf(f, a...)
	s.ops = append(s.ops, l)
	s.r.Logf("%s", l)
}

func (s *c10State) opts() *tbtree.Options {
	c := s.cfg
	return tbtree.DefaultOptions().
		WithMaxKeySize(c.MaxKey).WithMaxValueSize(c.MaxVal).WithMaxNodeSize(c.NodeSize).
		WithCacheSize(c.Cache).WithFlushThld(c.FlushThld).WithSyncThld(c.SyncThld).
		WithMaxBufferedDataSize(c.MaxBuffered).WithMaxActiveSnapshots(c.MaxSnaps).
		WithCompactionThld(c.CompactThld).WithFileSize(c.FileSize).
		WithCleanupPercentage(float32(c.CleanupPct)).WithFlushBufferSize(256).
		WithDelayDuringCompaction(0).
		WithNodesLogMaxOpenedFiles(2).WithHistoryLogMaxOpenedFiles(2).WithCommitLogMaxOpenedFiles(2).
		WithLogger(logger.NewMemoryLogger())
}

func (s *c10State) open(dir string) error {
	var t *tbtree.TBtree
	var err error
	opts := s.opts()
	if os.Getenv("VERIF_REPLAY") != "" && os.Getenv("VERIF_STORE_LOG") != "" {
		ml := logger.NewMemoryLoggerWithLevel(logger.LogDebug)
		opts.WithLogger(ml)
		inc := s.incarn
		s.r.Defer(func() {
			for _, l := range ml.GetLogs() {
				s.r.Logf("tblog[%d]: %s", inc, l)
			}
		})
	}
	pv, stack := s.r.Catch(func() { t, err = tbtree.Open(dir, opts) })
	if pv != nil {
		s.viol("open-panic", "", "tbtree.Open panicked: %v\n%s", pv, stack)
	}
	if err != nil {
		return err
	}
	s.t = t
	return nil
}

func c10Body(r *simcore.Run) {
	s := &c10State{r: r, m: c10Model{}, states: map[uint64]c10Model{}}
	c := &s.cfg
	c.MaxKey = r.Pick(8, 16, 32)
	c.MaxVal = r.Pick(8, 24, 64)
	req := 2 * (29 + c.MaxKey)
	if l := 31 + c.MaxKey + c.MaxVal; l > req {
		req = l
	}
	c.NodeSize = req + r.Pick(0, 16, 100, 1000)
	c.Cache = r.Pick(1, 2, 8, 100000)
	c.FlushThld = r.Pick(1, 3, 10, 100000)
	c.SyncThld = r.Pick(1, 5, 50, 1000000)
	if c.SyncThld < c.FlushThld {
		c.SyncThld = c.FlushThld
	}
	c.MaxBuffered = r.Pick(64, 300, 1<<22)
	c.MaxSnaps = r.Pick(2, 4, 100)
	c.CompactThld = r.Pick(1, 2)
	c.FileSize = r.Pick(256, 1024, 1<<20)
	c.CleanupPct = r.Pick(0, 0, 30, 100)
	c.RenewMs = r.Pick(0, 1, 1000)
	r.Sig("c10cfg", *c)
	r.Logf("cfg %+v", *c)
	// key universe: shared prefixes, different lengths, up to the maximum
	nk := 4 + r.Intn(20)
	seen := map[string]bool{}
	for attempt := 0; len(s.keys) < nk && attempt < nk*10; attempt++ {
		l := 1 + r.Intn(c.MaxKey)
		k := make([]byte, l)
		for i := range k {
			k[i] = "ab\x00\xff"[r.Intn(4)]
		}
		if r.Pct(10) {
			for i := range k {
				k[i] = 0xff
			}
		}
		if !seen[string(k)] {
			seen[string(k)] = true
			s.keys = append(s.keys, string(k))
		}
	}
	if len(s.keys) == 0 {
		s.keys = []string{"a"}
	}
	s.states[0] = c10Model{}
	s.dir = r.Dir("tb-0")
	r.Disk.Attach(s.dir)
	if err := s.open(s.dir); err != nil {
		s.viol("open-new", "", "cannot open a new tree with %+v: %v", *c, err)
	}
	r.Defer(func() {
		for _, sn := range s.snaps {
			sn.s.Close()
		}
		if s.t != nil {
			s.t.Close()
		}
	})
	nOps := 10 + r.Intn(60)
	for i := 0; i < nOps; i++ {
		s.prevStart, s.prevSync = s.opStart, s.curSync
		s.opStart, s.curSync = r.Disk.NumOps(), s.syncedTs
		switch w := r.Intn(100); {
		case w < 35:
			s.opInsert()
		case w < 40:
			s.opIncreaseTs()
		case w < 48:
			s.opFlush()
		case w < 52:
			s.opCompact()
		case w < 60:
			s.opSnapshot()
		case w < 70:
			s.opSnapRead()
		case w < 75:
			s.opSnapClose()
		case w < 88:
			s.readCurrent()
		case w < 93:
			s.opReopen(false)
		case w < 97:
			// The property speaks of flush and restart, not of crashes: what an index
			// recovers after a crash is decided at store level (C03/C04), where the
			// index is rebuilt from the transaction log. A crash image here could only
			// produce alarms the property does not state (the thorough tier did: stale
			// snapshot folders resurrected after a lost directory update, tails of lost
			// timelines), so this is a clean restart as well.
			s.opReopen(false)
		default:
			s.r.Sched.Sleep(2 * 1000 * 1000 * 1000)
		}
		r.Yield("c10-op")
	}
	s.readCurrent()
	for _, sn := range s.snaps {
		s.checkSnap(sn, "final")
	}
	s.opReopen(false)
	s.readCurrent()
	r.Sample(map[string]interface{}{"config": *c, "ops": s.ops})
}

func (s *c10State) record() {
	s.states[s.ts] = s.m
}

func (s *c10State) opInsert() {
	r := s.r
	n := 1 + r.Intn(6)
	var T uint64
	if r.Pct(50) {
		T = s.ts + 1 + uint64(r.Intn(3))
	}
	used := map[string]bool{}
	var kvts []*tbtree.KVT
	for i := 0; i < n; i++ {
		k := s.keys[r.Intn(len(s.keys))]
		if used[k] {
			continue
		}
		used[k] = true
		s.seq++
		v := []byte(fmt.Sprintf("%d", s.seq))
		for len(v) < 1+r.Intn(s.cfg.MaxVal) && len(v) < s.cfg.MaxVal {
			v = append(v, byte('a'+len(v)%26))
		}
		if len(v) > s.cfg.MaxVal {
			v = v[:s.cfg.MaxVal]
		}
		kvts = append(kvts, &tbtree.KVT{K: []byte(k), V: v, T: T})
	}
	err := s.t.BulkInsert(kvts)
	s.logOp("bulkinsert %d entries T=%d (ts %d) err=%v", len(kvts), T, s.ts, err)
	if err != nil {
		s.viol("insert", "", "BulkInsert of %d entries with T=%d at ts %d failed: %v", len(kvts), T, s.ts, err)
	}
	newTs := T
	if T == 0 {
		newTs = s.ts + 1
	}
	m := s.m.clone()
	for _, kv := range kvts {
		old := m[string(kv.K)]
		nv := make([]c10Ver, len(old), len(old)+1)
		copy(nv, old)
		m[string(kv.K)] = append(nv, c10Ver{V: kv.V, Ts: newTs})
	}
	s.m = m
	s.ts = newTs
	s.record()
	if got := s.t.Ts(); got != s.ts {
		s.viol("ts", "", "Ts() is %d after inserting at %d", got, s.ts)
	}
	// an insertion at or below the current time must be refused
	if s.ts > 1 && r.Pct(10) {
		if err := s.t.BulkInsert([]*tbtree.KVT{{K: []byte(s.keys[0]), V: []byte("x"), T: s.ts}}); err == nil {
			s.viol("insert", "", "BulkInsert with a timestamp equal to the current one (%d) was accepted", s.ts)
		}
	}
}

func (s *c10State) opIncreaseTs() {
	to := s.ts + 1 + uint64(s.r.Intn(3))
	err := s.t.IncreaseTs(to)
	s.logOp("increasets %d err=%v", to, err)
	if err != nil {
		s.viol("increasets", "", "IncreaseTs(%d) at ts %d failed: %v", to, s.ts, err)
	}
	s.ts = to
	s.record()
}

func (s *c10State) opFlush() {
	pct := float32(s.r.Pick(0, 0, 50, 100))
	synced := s.r.Bool()
	_, _, err := s.t.FlushWith(pct, synced)
	s.logOp("flush cleanup=%v synced=%v err=%v", pct, synced, err)
	if err != nil {
		s.viol("flush", "", "FlushWith(%v,%v) failed: %v", pct, synced, err)
	}
	if synced {
		s.syncedTs = s.ts
	}
	if s.r.Pct(30) {
		if err := s.t.Sync(); err != nil {
			s.viol("sync", "", "Sync failed: %v", err)
		}
		s.logOp("sync")
		s.syncedTs = s.ts
	}
}

func (s *c10State) opCompact() {
	if len(s.snaps) > 0 && s.r.Pct(50) {
		return
	}
	ts, err := s.t.Compact()
	s.logOp("compact -> ts=%d err=%v", ts, err)
	if err != nil {
		if errors.Is(err, tbtree.ErrCompactionThresholdNotReached) || errors.Is(err, tbtree.ErrSnapshotsNotClosed) {
			return
		}
		if errors.Is(err, tbtree.ErrTargetPathAlreadyExists) || strings.Contains(err.Error(), "target folder already exists") {
			return // a compaction of this very logical time already exists on disk
		}
		if s.crashedOnce && strings.Contains(err.Error(), "corrupted metadata") {
			s.r.Finding("compact", "C10:crash-during-file-creation", "a crash interrupted an earlier compaction while it was creating its files: the leftover incomplete folder makes Compact fail: %v", err)
			return
		}
		s.viol("compact", "", "Compact failed: %v", err)
	}
	if ts > s.ts {
		s.viol("compact", "", "Compact reports logical time %d, the tree is at %d", ts, s.ts)
	}
	s.r.Probe("c10-compaction")
	if _, ok := s.states[ts]; !ok {
		s.viol("compact", "", "Compact reports logical time %d, which is not a state the tree went through", ts)
	}
	// the compacted tree is what the next restart loads
	s.compactedTs = ts
	s.compacted = true
}

func (s *c10State) opSnapshot() {
	r := s.r
	if len(s.snaps) >= 3 {
		return
	}
	var must uint64
	if s.ts > 0 && r.Pct(60) {
		must = 1 + uint64(r.Intn(int(s.ts)))
	}
	var sn *tbtree.Snapshot
	var err error
	switch r.Intn(3) {
	case 0:
		sn, err = s.t.SnapshotMustIncludeTs(must)
	case 1:
		sn, err = s.t.SnapshotMustIncludeTsWithRenewalPeriod(must, 0)
	default:
		must = 0
		sn, err = s.t.Snapshot()
	}
	s.logOp("snapshot must=%d (ts %d) err=%v", must, s.ts, err)
	if err != nil {
		if errors.Is(err, tbtree.ErrorToManyActiveSnapshots) {
			return
		}
		s.viol("snapshot", "", "snapshot including ts %d at ts %d failed: %v", must, s.ts, err)
	}
	sts := sn.Ts()
	if sts < must || sts > s.ts {
		s.viol("snapshot-ts", "", "snapshot asked to include ts %d reflects logical time %d (tree at %d)", must, sts, s.ts)
	}
	st, ok := s.states[sts]
	if !ok {
		s.viol("snapshot-ts", "", "snapshot reflects logical time %d, which is not a state the tree went through", sts)
	}
	c := &c10Snap{s: sn, state: st, ts: sts}
	s.snaps = append(s.snaps, c)
	s.checkSnap(c, "new snapshot")
}

func (s *c10State) opSnapClose() {
	if len(s.snaps) == 0 {
		return
	}
	i := s.r.Intn(len(s.snaps))
	s.checkSnap(s.snaps[i], "before close")
	if err := s.snaps[i].s.Close(); err != nil {
		s.viol("snapshot", "", "closing a snapshot failed: %v", err)
	}
	s.logOp("snapshot close")
	s.snaps = append(s.snaps[:i], s.snaps[i+1:]...)
}

func (s *c10State) opSnapRead() {
	if len(s.snaps) == 0 {
		return
	}
	s.checkSnap(s.snaps[s.r.Intn(len(s.snaps))], "snapshot read")
}

func sortedKeys(m c10Model) []string {
	ks := make([]string, 0, len(m))
	for k := range m {
		ks = append(ks, k)
	}
	sort.Strings(ks)
	return ks
}

// checkSnap: a snapshot keeps answering from the state it pinned.
func (s *c10State) checkSnap(c *c10Snap, what string) {
	r := s.r
	m := c.state
	what = fmt.Sprintf("%s (snapshot of ts %d, tree at %d)", what, c.ts, s.ts)
	// point lookups
	for i := 0; i < 3; i++ {
		k := s.keys[r.Intn(len(s.keys))]
		v, ts, hc, err := c.s.Get([]byte(k))
		s.cmpGet(what+": Get", k, m[k], v, ts, hc, err)
	}
	// one reader with a random spec
	spec := tbtree.ReaderSpec{DescOrder: r.Bool(), InclusiveSeek: r.Bool(), InclusiveEnd: r.Bool()}
	if r.Pct(50) {
		spec.SeekKey = []byte(s.keys[r.Intn(len(s.keys))])
	}
	if r.Pct(40) {
		spec.EndKey = []byte(s.keys[r.Intn(len(s.keys))])
	}
	if r.Pct(40) {
		k := s.keys[r.Intn(len(s.keys))]
		spec.Prefix = []byte(k[:1+r.Intn(len(k))])
	}
	if r.Pct(30) {
		spec.Offset = uint64(r.Intn(3))
	}
	rd, err := c.s.NewReader(spec)
	if err != nil {
		s.viol("reader", "", "%s: NewReader(%+v) failed: %v", what, spec, err)
	}
	want := c10Scan(m, spec, s.cfg.MaxKey)
	var got []string
	for {
		k, v, ts, hc, err := rd.Read()
		if errors.Is(err, tbtree.ErrNoMoreEntries) {
			break
		}
		if err != nil {
			rd.Close()
			s.viol("reader", "", "%s: Read with %+v failed after %d keys: %v", what, spec, len(got), err)
		}
		vers := m[string(k)]
		if len(vers) == 0 {
			rd.Close()
			s.viol("reader-content", "", "%s: reader %+v returned key %q which the pinned state does not hold", what, spec, k)
		}
		last := vers[len(vers)-1]
		if !bytes.Equal(v, last.V) || ts != last.Ts || hc != uint64(len(vers)) {
			rd.Close()
			s.viol("reader-content", "", "%s: reader returned (%q,ts %d,hc %d) for key %q, the pinned state holds (%q,ts %d,hc %d)", what, v, ts, hc, k, last.V, last.Ts, len(vers))
		}
		got = append(got, string(k))
		if len(got) > len(m)+2 {
			break
		}
	}
	rd.Close()
	if fmt.Sprintf("%q", got) != fmt.Sprintf("%q", want) {
		s.viol("reader-keys", "", "%s: reader %+v returned keys %q, the pinned state defines %q", what, spec, got, want)
	}
	// history through the snapshot
	k := s.keys[r.Intn(len(s.keys))]
	s.cmpHistory(what, k, m[k], func(off uint64, desc bool, lim int) ([]tbtree.TimedValue, uint64, error) {
		return c.s.History([]byte(k), off, desc, lim)
	})
}

// c10Scan defines the keys a plain reader returns on model m.
func c10Scan(m c10Model, spec tbtree.ReaderSpec, maxKey int) []string {
	greatest := bytes.Repeat([]byte{0xff}, maxKey)
	copy(greatest, spec.Prefix)
	seek, incSeek := spec.SeekKey, spec.InclusiveSeek
	end, incEnd := spec.EndKey, spec.InclusiveEnd
	if spec.DescOrder {
		if len(seek) == 0 || bytes.Compare(seek, greatest) > 0 {
			seek, incSeek = greatest, true
		}
		if bytes.Compare(end, spec.Prefix) < 0 {
			end, incEnd = spec.Prefix, true
		}
	} else {
		if bytes.Compare(seek, spec.Prefix) < 0 {
			seek, incSeek = spec.Prefix, true
		}
		if len(end) == 0 || bytes.Compare(end, greatest) > 0 {
			end, incEnd = greatest, true
		}
	}
	keys := sortedKeys(m)
	if spec.DescOrder {
		sort.Sort(sort.Reverse(sort.StringSlice(keys)))
	}
	var out []string
	skipped := uint64(0)
	for _, k := range keys {
		kb := []byte(k)
		cs := bytes.Compare(kb, seek)
		ce := bytes.Compare(kb, end)
		if spec.DescOrder {
			if cs > 0 || (cs == 0 && !incSeek) {
				continue
			}
			if ce < 0 || (ce == 0 && !incEnd) {
				continue
			}
		} else {
			if cs < 0 || (cs == 0 && !incSeek) {
				continue
			}
			if ce > 0 || (ce == 0 && !incEnd) {
				continue
			}
		}
		if !bytes.HasPrefix(kb, spec.Prefix) {
			continue
		}
		if skipped < spec.Offset {
			skipped++
			continue
		}
		out = append(out, k)
	}
	return out
}

func (s *c10State) cmpGet(what, k string, vers []c10Ver, v []byte, ts, hc uint64, err error) {
	if len(vers) == 0 {
		if !errors.Is(err, tbtree.ErrKeyNotFound) {
			s.viol("get", "", "%s(%q) returned (%q,%v) for a key that was never inserted", what, k, v, err)
		}
		return
	}
	last := vers[len(vers)-1]
	if err != nil || !bytes.Equal(v, last.V) || ts != last.Ts || hc != uint64(len(vers)) {
		s.viol("get", "", "%s(%q) returned (%q,ts %d,hc %d,err %v), the map holds (%q,ts %d,hc %d)", what, k, v, ts, hc, err, last.V, last.Ts, len(vers))
	}
}

func (s *c10State) cmpHistory(what, k string, vers []c10Ver, hist func(off uint64, desc bool, lim int) ([]tbtree.TimedValue, uint64, error)) {
	r := s.r
	if len(vers) == 0 {
		return
	}
	off := uint64(r.Intn(len(vers) + 1))
	desc := r.Bool()
	lim := 1 + r.Intn(len(vers)+1)
	tvs, hc, err := hist(off, desc, lim)
	if off >= uint64(len(vers)) {
		if err == nil && len(tvs) > 0 {
			s.viol("history", "", "%s: History(%q,off=%d) returned %d versions beyond the %d that exist", what, k, off, len(tvs), len(vers))
		}
		return
	}
	if err != nil {
		s.viol("history", "", "%s: History(%q,off=%d,desc=%v,limit=%d) failed: %v", what, k, off, desc, lim, err)
	}
	if hc != uint64(len(vers)) {
		s.viol("history", "", "%s: History(%q) reports %d versions, the map holds %d", what, k, hc, len(vers))
	}
	wantN := len(vers) - int(off)
	if wantN > lim {
		wantN = lim
	}
	if len(tvs) != wantN {
		s.viol("history", "", "%s: History(%q,off=%d,desc=%v,limit=%d) returned %d versions, expected %d of %d", what, k, off, desc, lim, len(tvs), wantN, len(vers))
	}
	for i, tv := range tvs {
		idx := int(off) + i
		if desc {
			idx = len(vers) - 1 - int(off) - i
		}
		if !bytes.Equal(tv.Value, vers[idx].V) || tv.Ts != vers[idx].Ts {
			s.viol("history", "", "%s: History(%q,off=%d,desc=%v)[%d] = (%q,ts %d), the map holds (%q,ts %d)", what, k, off, desc, i, tv.Value, tv.Ts, vers[idx].V, vers[idx].Ts)
		}
	}
}

// readCurrent compares lookups on the live tree with the model.
func (s *c10State) readCurrent() {
	r := s.r
	if got := s.t.Ts(); got != s.ts {
		s.viol("ts", "", "Ts() is %d, the model is at %d", got, s.ts)
	}
	for i := 0; i < 4; i++ {
		k := s.keys[r.Intn(len(s.keys))]
		v, ts, hc, err := s.t.Get([]byte(k))
		s.cmpGet("Get", k, s.m[k], v, ts, hc, err)
		vers := s.m[k]
		if len(vers) > 0 {
			// bounded-time lookup
			lo := uint64(1 + r.Intn(int(s.ts)))
			hi := lo + uint64(r.Intn(int(s.ts)))
			var want *c10Ver
			rev := 0
			for j := range vers {
				if vers[j].Ts >= lo && vers[j].Ts <= hi {
					want = &vers[j]
					rev = j + 1
				}
			}
			v, ts, hc, err := s.t.GetBetween([]byte(k), lo, hi)
			if want == nil {
				if err == nil {
					s.viol("getbetween", "", "GetBetween(%q,%d,%d) returned (%q,ts %d) but no version lies in that range; versions of the key: %s; all keys: %q", k, lo, hi, v, ts, fmt.Sprint(vers), sortedKeys(s.m))
				}
			} else if err != nil || !bytes.Equal(v, want.V) || ts != want.Ts || hc != uint64(rev) {
				s.viol("getbetween", "", "GetBetween(%q,%d,%d) returned (%q,ts %d,hc %d,err %v), expected (%q,ts %d,hc %d)", k, lo, hi, v, ts, hc, err, want.V, want.Ts, rev)
			}
			s.cmpHistory("live tree", k, vers, func(off uint64, desc bool, lim int) ([]tbtree.TimedValue, uint64, error) {
				return s.t.History([]byte(k), off, desc, lim)
			})
		}
	}
	// prefix lookup with exclusion key
	k := s.keys[r.Intn(len(s.keys))]
	prefix := k[:1+r.Intn(len(k))]
	var neq []byte
	if r.Bool() {
		neq = []byte(s.keys[r.Intn(len(s.keys))])
	}
	// the exclusion key acts as an exclusive lower bound: the candidate is the
	// first key >= prefix that is greater than it, and it must carry the prefix
	var want string
	for _, kk := range sortedKeys(s.m) {
		if kk >= prefix && (len(neq) == 0 || kk > string(neq)) {
			if len(kk) >= len(prefix) && kk[:len(prefix)] == prefix {
				want = kk
			}
			break
		}
	}
	gk, gv, gts, ghc, err := s.t.GetWithPrefix([]byte(prefix), neq)
	if want == "" {
		if err == nil {
			s.viol("getwithprefix", "", "GetWithPrefix(%q,neq %q) returned key %q, the map holds none", prefix, neq, gk)
		}
	} else {
		vers := s.m[want]
		last := vers[len(vers)-1]
		if err != nil || string(gk) != want || !bytes.Equal(gv, last.V) || gts != last.Ts || ghc != uint64(len(vers)) {
			s.viol("getwithprefix", "", "GetWithPrefix(%q,neq %q) returned (%q,%q,ts %d,hc %d,err %v), expected first matching key %q (%q,ts %d,hc %d)", prefix, neq, gk, gv, gts, ghc, err, want, last.V, last.Ts, len(vers))
		}
	}
}

// viol reports a disagreement with the model. Everything up to and including
// the validation of the state recovered from the first crash is strict. Once
// the tree continues to operate on top of a crash image, its logs may hold a
// stale tail of the lost timeline (files are never truncated, entries are
// overwritten in place); anomalies from then on are attributed to that known
// finding.
func (s *c10State) viol(class, sig, format string, args ...interface{}) {
	if s.postCrash {
		s.r.Finding(class, "C03:stale-index-tail-after-repeated-crash", "operating on a tree recovered from a crash: "+format, args...)
		s.r.EndRun()
	}
	s.r.Violation(class, sig, format, args...)
}

func c10SameContent(a, b c10Model) bool {
	if a == nil || b == nil || len(a) != len(b) {
		return false
	}
	for k, va := range a {
		vb := b[k]
		if len(va) != len(vb) {
			return false
		}
		for i := range va {
			if va[i].Ts != vb[i].Ts || !bytes.Equal(va[i].V, vb[i].V) {
				return false
			}
		}
	}
	return true
}

// rollbackTo makes the state at logical time ts the current model state.
func (s *c10State) rollbackTo(ts uint64) {
	s.m = s.states[ts]
	s.ts = ts
	for t := range s.states {
		if t > ts {
			delete(s.states, t)
		}
	}
	s.syncedTs = ts
	s.compacted = false
	s.compactedTs = 0
}

func (s *c10State) closeSnaps() {
	for _, sn := range s.snaps {
		s.checkSnap(sn, "before tree close")
		sn.s.Close()
	}
	s.snaps = nil
}

func (s *c10State) opReopen(crash bool) {
	r := s.r
	if !crash {
		s.closeSnaps()
		err := s.t.Close()
		s.logOp("close err=%v", err)
		if err != nil {
			s.viol("close", "", "Close failed: %v", err)
		}
		s.t = nil
		if err := s.open(s.dir); err != nil {
			s.viol("reopen", "", "reopen after clean close failed: %v", err)
		}
		want := s.ts
		if s.compacted {
			// inserts made after the compaction went to the superseded tree
			want = s.compactedTs
			r.Probe("c10-reopen-loads-compacted")
		}
		if got := s.t.Ts(); got != want && s.crashedOnce && s.compacted && got == s.ts {
			// after a crash the logical time may have moved backwards (a lost
			// IncreaseTs), so compaction folders are no longer ordered by age and
			// the live tree can shadow a later compaction: accept the live state
			r.Probe("c10-compaction-shadowed-after-crash")
			want = got
		}
		if got := s.t.Ts(); got != want {
			s.viol("reopen-ts", "", "Ts() after close+reopen is %d, expected %d (tree was at %d, compaction pending: %v)", got, want, s.ts, s.compacted)
		}
		s.rollbackTo(want)
		s.readCurrent()
		return
	}
	tr := r.Disk.Snapshot()
	nops := len(tr.Ops)
	k := nops
	// Lower bound on what must survive: only a completed compaction. (Sync and
	// FlushWith(synced) are no-ops when an earlier un-synced flush already wrote
	// the nodes, so they establish no guarantee the harness could rely on; the
	// store rebuilds the index from the transaction log anyway.)
	guaranteed := uint64(0)
	if s.compacted {
		guaranteed = s.compactedTs
	}
	if span := nops - s.prevStart; span > 0 && r.IntnS("crash", 2) == 1 {
		k = s.prevStart + r.IntnS("crash", span)
		guaranteed = 0 // the previous operation may have been the compaction itself
	}
	mode := simcore.ImageMode(r.IntnS("crash", int(simcore.NumImageModes)))
	s.incarn++
	dst := r.Dir(fmt.Sprintf("tb-%d", s.incarn%3+1))
	st, err := tr.BuildImage(k, mode, func(n int) int { return r.IntnS("crash", n) }, dst)
	r.Must(err, "build image")
	r.Fault("crash-" + mode.String())
	if st.Dropped > 0 {
		r.Fault("lost-unsynced-write")
	}
	if st.Torn > 0 {
		r.Fault("torn-write")
	}
	s.logOp("crash at op %d/%d mode=%s %+v (synced ts %d)", k, nops, mode, st, guaranteed)
	for _, sn := range s.snaps {
		sn.s.Close()
	}
	s.snaps = nil
	r.Disk.Detach()
	s.t.Close()
	s.t = nil
	s.dir = dst
	r.Disk.Attach(dst)
	if err := s.open(dst); err != nil {
		if p, inflight := tr.CreationInFlight(k); inflight {
			r.Finding("reopen-after-crash", "C10:crash-during-file-creation", "crash while %s was being created: the index cannot be reopened: %v", p, err)
			r.EndRun()
		}
		s.viol("reopen-after-crash", "", "reopen of crash image (op %d/%d, %s, %+v) failed: %v", k, nops, mode, st, err)
	}
	s.crashedOnce = true
	got := s.t.Ts()
	if p, inflight := tr.CreationInFlight(k); inflight && got < guaranteed {
		r.Finding("durability", "C10:crash-during-file-creation", "crash while %s was being created: the snapshot holding that incomplete file is skipped at open and the tree silently restarts from logical time %d although a synced flush had covered %d", p, got, guaranteed)
		r.EndRun()
	}
	if got < guaranteed && c10SameContent(s.states[got], s.states[guaranteed]) {
		// only timestamp advances (IncreaseTs) separate the two states
		guaranteed = got
	}
	if got < guaranteed {
		s.viol("durability", "", "after crash (op %d/%d, %s) the tree is at logical time %d, a synced flush had covered %d", k, nops, mode, got, guaranteed)
	}
	stt, ok := s.states[got]
	if !ok || got > s.ts {
		s.viol("reopen-after-crash", "", "after crash the tree is at logical time %d, which is not a state it went through (was at %d)", got, s.ts)
	}
	_ = stt
	s.rollbackTo(got)
	// the recovered tree must hold exactly that state
	for _, kk := range s.keys {
		v, ts, hc, err := s.t.Get([]byte(kk))
		s.cmpGet(fmt.Sprintf("after crash (recovered ts %d): Get", got), kk, s.m[kk], v, ts, hc, err)
	}
	s.readCurrent()
	s.postCrash = true
}
