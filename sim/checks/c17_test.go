package checks

import (
	"bytes"
	"errors"
	"fmt"
	"io"
	"path/filepath"

	"github.com/codenotary/immudb/embedded/appendable"
	"github.com/codenotary/immudb/embedded/appendable/multiapp"
	"github.com/codenotary/immudb/embedded/appendable/singleapp"

	"verifsim/simcore"
)

// C17 — appendable files behave as a persistent byte log.
//
// System: real singleapp.AppendableFile / multiapp.MultiFileAppendable on real
// files, observed by the shadow disk. Model: one byte slice (or, with
// compression, a list of entries addressed by their offsets).

func init() {
	register(&simcore.Check{ID: "C17", Bubble: true, Body: c17Body})
}

type c17Cfg struct {
	Multi       bool   `json:"multi"`
	Comp        int    `json:"compression"`
	FileSize    int    `json:"file_size"`
	WBuf        int    `json:"write_buffer"`
	Retry       bool   `json:"retryable_sync"`
	Auto        bool   `json:"auto_sync"`
	Prealloc    bool   `json:"prealloc"`
	MaxOpen     int    `json:"max_opened_files"`
	Prefetch    int    `json:"prefetch_depth"`
	Meta        []byte `json:"metadata"`
	Faults      bool   `json:"io_faults"`
	FailWritePM int    `json:"fail_write_pm,omitempty"`
	FailSyncPM  int    `json:"fail_sync_pm,omitempty"`
	FailReadPM  int    `json:"fail_read_pm,omitempty"`
}

type c17Entry struct {
	off  int64
	data []byte
}

type c17State struct {
	r    *simcore.Run
	cfg  c17Cfg
	path string
	app  appendable.Appendable
	ro   bool

	data    []byte     // logical content (no compression)
	entries []c17Entry // compression: entries by offset
	size    int64      // logical size
	hw      int64      // highest logical size since last (re)open
	rewound bool       // a rewind happened and the tail was not yet fully overwritten

	discarded int64 // bytes below this offset may be unreadable (DiscardUpto)

	// durability bookkeeping (no compression)
	synced     []byte // content at the last successful Sync
	syncedOK   bool
	minSince   int64 // lowest logical size since that Sync
	syncFailed bool  // an fsync fault fired since the last successful sync

	gen       int
	ops       []string
	opStart   int // disk op index when the current API op started
	prevStart int
	curDur    c17Dur // durability bookkeeping when the current / previous op started
	prevDur   c17Dur
	incarn    int
	crashed   bool
	keepHW    int64

	everRewound bool
	// dirtyAtOpen: the previous incarnation was closed with un-synced bytes;
	// Sync only covers the chunk that is current now, so it establishes no
	// durability guarantee for the whole content until the next crash-recovery
	dirtyAtOpen bool
}

func (s *c17State) logOp(format string, args ...interface{}) {
	l := fmt.Sprintf(format, args...)
	s.ops = append(s.ops, l)
	s.r.Logf("%s", l)
}

func (s *c17State) payload(n int) []byte {
	s.gen++
	b := make([]byte, n)
	x := uint32(s.gen)*2654435761 + 12345
	for i := range b {
		x = x*1664525 + 1013904223
		b[i] = byte(x >> 24)
	}
	return b
}

func (s *c17State) open(path string) (appendable.Appendable, error) {
	c := s.cfg
	if c.Multi {
		opts := multiapp.DefaultOptions().
			WithFileSize(c.FileSize).
			WithWriteBufferSize(c.WBuf).
			WithRetryableSync(c.Retry).
			WithAutoSync(c.Auto).
			WithPrealloc(c.Prealloc).
			WithMaxOpenedFiles(c.MaxOpen).
			WithCompressionFormat(c.Comp).
			WithPrefetchAheadDepth(c.Prefetch).
			WithMetadata(c.Meta)
		return multiapp.Open(path, opts)
	}
	opts := singleapp.DefaultOptions().
		WithWriteBuffer(make([]byte, c.WBuf)).
		WithRetryableSync(c.Retry).
		WithAutoSync(c.Auto).
		WithCompressionFormat(c.Comp).
		WithMetadata(c.Meta)
	return singleapp.Open(filepath.Join(path, "single.aof"), opts)
}

func isInjected(err error) bool { return errors.Is(err, simcore.ErrInjected) }

func c17Body(r *simcore.Run) {
	s := &c17State{r: r}
	c := &s.cfg
	c.Multi = r.Pct(65)
	if r.Pct(25) {
		c.Comp = 1 + r.Intn(4)
	}
	c.FileSize = r.Pick(64, 100, 128, 256, 512, 1024)
	c.WBuf = r.Pick(16, 32, 64, 128, 256, 1024)
	c.Retry = r.Bool()
	c.Auto = c.Retry && (r.Pct(75) || c.Comp != 0)
	c.Prealloc = c.Multi && c.Comp == 0 && r.Pct(12)
	c.MaxOpen = 1 + r.Intn(3)
	c.Prefetch = r.Pick(0, 0, 1, 2)
	c.Meta = r.Bytes(r.Intn(6))
	if c.Comp == 0 && !c.Prealloc && r.Pct(30) {
		c.Faults = true
		c.FailWritePM = r.Pick(0, 20, 60)
		c.FailSyncPM = r.Pick(0, 30, 80)
		c.FailReadPM = r.Pick(0, 0, 30)
		if !c.Retry {
			// without retryable sync a failed fsync may lose flushed data by design
			c.FailSyncPM = 0
		}
	}
	r.Sig("cfg", c.Multi, c.Comp, c.FileSize, c.WBuf, c.Retry, c.Auto, c.Prealloc, c.MaxOpen, c.Faults)

	r.Sched.EnablePoint("multiapp-opened")
	s.path = r.Dir("c17-0")
	r.Disk.Attach(s.path)
	r.Disk.FailWritePM, r.Disk.FailSyncPM, r.Disk.FailReadPM = c.FailWritePM, c.FailSyncPM, c.FailReadPM

	app, err := s.open(s.path)
	if err != nil {
		r.Violation("open-new", "", "cannot create appendable with %+v: %v", *c, err)
	}
	s.app = app
	s.syncedOK = true
	s.logOp("open cfg=%+v", *c)
	s.preallocRewind()

	defer func() {
		if x := recover(); x != nil {
			if _, ok := x.(stopC17); !ok {
				panic(x)
			}
			if s.app != nil {
				s.app.Close()
			}
		}
	}()
	nOps := 8 + r.Intn(70)
	for i := 0; i < nOps; i++ {
		s.prevStart = s.opStart
		s.prevDur = s.curDur
		s.curDur = c17Dur{s.synced, s.syncedOK, s.minSince, s.syncFailed}
		s.opStart = r.Disk.NumOps()
		s.step()
		r.Yield("c17-op")
	}
	// final: verify everything, close, reopen, verify again
	s.verifyAll("final")
	s.reopen(false)
	s.verifyAll("final-reopened")
	if err := s.app.Close(); err != nil && !isInjected(err) {
		r.Violation("close", "", "final close failed: %v", err)
	}
	r.Sample(map[string]interface{}{"config": *c, "ops": s.ops})
}

func (s *c17State) step() {
	r := s.r
	w := r.Intn(100)
	switch {
	case w < 38:
		s.opAppend()
	case w < 62:
		s.opRead()
	case w < 69:
		s.opSetOffset()
	case w < 74:
		s.opFlush()
	case w < 81:
		s.opSync()
	case w < 83:
		s.opDiscard()
	case w < 88:
		s.reopen(false)
	case w < 93:
		s.reopen(true)
	case w < 94:
		s.opCopy()
	default:
		s.verifyAll("verify")
	}
}

func (s *c17State) opAppend() {
	r := s.r
	if s.ro {
		return
	}
	var n int
	switch r.Intn(4) {
	case 0:
		n = 1 + r.Intn(16)
	case 1, 2:
		n = 1 + r.Intn(s.cfg.FileSize)
	default:
		n = 1 + r.Intn(3*s.cfg.FileSize)
	}
	bs := s.payload(n)
	r.Disk.Armed = true
	off, wn, err := s.app.Append(bs)
	r.Disk.Armed = false
	s.logOp("append n=%d -> off=%d n=%d err=%v", n, off, wn, err)
	if err != nil {
		if !isInjected(err) && !errors.Is(err, singleapp.ErrBufferFull) {
			r.Violation("append-error", "", "append of %d bytes failed without injected fault: %v", n, err)
		}
		// resynchronise: a prefix of bs may have been appended
		cur := s.app.Offset()
		if s.cfg.Comp != 0 {
			r.Trouble("failed append with compression is not modelled")
		}
		if cur < s.size || cur > s.size+int64(n) {
			r.Violation("append-partial", "", "after failed append offset %d is outside [%d,%d]", cur, s.size, s.size+int64(n))
		}
		k := cur - s.size
		s.data = append(s.data, bs[:k]...)
		s.size = cur
		s.touchSize()
		return
	}
	if off != s.size {
		if s.cfg.Comp != 0 && s.cfg.Multi && off < s.size && len(s.entries) > 0 && off == (s.entries[len(s.entries)-1].off/int64(s.cfg.FileSize)+1)*int64(s.cfg.FileSize) {
			// a compressed entry overflowed its chunk: the next entry starts at
			// the next chunk boundary, below the size reported before
			r.Finding("append-offset", "C17:compressed-entry-overflows-chunk", "append returned offset %d, previous size was %d (compression %d, chunk %d)", off, s.size, s.cfg.Comp, s.cfg.FileSize)
		} else {
			r.Violation("append-offset", "", "append returned offset %d, previous size was %d", off, s.size)
		}
	}
	if s.cfg.Comp == 0 {
		if wn != n {
			r.Violation("append-n", "", "append of %d bytes returned n=%d", n, wn)
		}
		s.data = append(s.data, bs...)
		s.size += int64(n)
	} else {
		s.entries = append(s.entries, c17Entry{off: off, data: bs})
		s.size = s.app.Offset()
		if s.cfg.Multi && s.size > (off/int64(s.cfg.FileSize)+1)*int64(s.cfg.FileSize) {
			// the compressed entry extends past its chunk: offsets of later
			// entries restart at the next chunk boundary, below this size
			buf := make([]byte, len(bs))
			if n, err := s.app.ReadAt(buf, off); err != nil || n != len(bs) || !bytes.Equal(buf, bs) {
				r.Violation("read-content", "", "entry at %d overflowing its chunk reads back n=%d err=%v", off, n, err)
			}
			probe := s.payload(1)
			off2, _, err := s.app.Append(probe)
			if err != nil {
				r.Violation("append-error", "", "append after an overflowing compressed entry failed: %v", err)
			}
			if off2 < s.size {
				r.Finding("append-offset", "C17:compressed-entry-overflows-chunk", "compressed entry at offset %d ends at %d, past its chunk; the next append returned offset %d, lower than the size reported before it (compression %d, chunk %d)", off, s.size, off2, s.cfg.Comp, s.cfg.FileSize)
				panic(stopC17{})
			}
			if off2 != s.size {
				r.Violation("append-offset", "", "append returned offset %d, previous size was %d", off2, s.size)
			}
			s.entries = append(s.entries, c17Entry{off: off2, data: probe})
			s.size = s.app.Offset()
		}
		if s.size <= off {
			r.Violation("append-offset", "", "offset did not advance after compressed append: %d -> %d", off, s.size)
		}
	}
	s.touchSize()
	if sz, err := s.app.Size(); err != nil || sz != s.size {
		r.Violation("size", "", "Size()=%d,%v but logical size is %d", sz, err, s.size)
	}
}

func (s *c17State) touchSize() {
	if s.size > s.hw {
		s.hw = s.size
	}
	if s.size >= s.hw {
		s.rewound = false
	}
}

func (s *c17State) opRead() {
	r := s.r
	if s.cfg.Comp != 0 {
		if len(s.entries) == 0 {
			return
		}
		e := s.entries[r.Intn(len(s.entries))]
		if e.off < s.discarded {
			return
		}
		want := len(e.data)
		if r.Pct(20) {
			want = 1 + r.Intn(len(e.data))
		}
		buf := make([]byte, want)
		n, err := s.app.ReadAt(buf, e.off)
		if err != nil {
			r.Violation("read-error", "", "read of entry at %d failed: %v", e.off, err)
		}
		if n != want || !bytes.Equal(buf[:n], e.data[:want]) {
			r.Violation("read-content", "", "entry at %d: read %d bytes differ from what was appended", e.off, n)
		}
		return
	}
	if s.size == 0 {
		return
	}
	off := int64(r.Intn(int(s.size)))
	maxLen := int(s.size - off)
	n := 1 + r.Intn(maxLen)
	if r.Pct(50) && n > 2*s.cfg.FileSize {
		n = 1 + r.Intn(2*s.cfg.FileSize)
	}
	s.readCheck(off, n, "read")
}

func (s *c17State) readCheck(off int64, n int, what string) {
	r := s.r
	buf := make([]byte, n)
	r.Disk.Armed = true
	rn, err := s.app.ReadAt(buf, off)
	r.Disk.Armed = false
	if err != nil {
		if isInjected(err) {
			return
		}
		if off < s.discarded {
			return // discarded prefix may be unreadable
		}
		r.Violation("read-error", "", "%s off=%d n=%d (size %d) failed: %v", what, off, n, s.size, err)
	}
	if rn != n {
		r.Violation("read-short", "", "%s off=%d n=%d returned %d bytes without error", what, off, n, rn)
	}
	if !bytes.Equal(buf, s.data[off:off+int64(n)]) {
		i := 0
		for i < n && buf[i] == s.data[off+int64(i)] {
			i++
		}
		if off+int64(i) < s.discarded {
			return
		}
		r.Violation("read-content", "", "%s off=%d n=%d: byte at offset %d is %#x, last written %#x (size %d, chunk %d)", what, off, n, off+int64(i), buf[i], s.data[off+int64(i)], s.size, s.cfg.FileSize)
	}
}

func (s *c17State) verifyAll(what string) {
	r := s.r
	if sz, err := s.app.Size(); err != nil || (sz != s.size) {
		r.Violation("size", "", "%s: Size()=%d,%v but logical size is %d", what, sz, err, s.size)
	}
	if off := s.app.Offset(); off != s.size {
		r.Violation("size", "", "%s: Offset()=%d but logical size is %d", what, off, s.size)
	}
	if !bytes.Equal(s.app.Metadata(), s.cfg.Meta) && !(len(s.app.Metadata()) == 0 && len(s.cfg.Meta) == 0) {
		r.Violation("metadata", "", "%s: metadata %x differs from %x", what, s.app.Metadata(), s.cfg.Meta)
	}
	if s.app.CompressionFormat() != s.cfg.Comp {
		r.Violation("metadata", "", "%s: compression format %d differs from %d", what, s.app.CompressionFormat(), s.cfg.Comp)
	}
	if s.cfg.Comp != 0 {
		for _, e := range s.entries {
			if e.off < s.discarded {
				continue
			}
			buf := make([]byte, len(e.data))
			n, err := s.app.ReadAt(buf, e.off)
			if err != nil || n != len(e.data) || !bytes.Equal(buf, e.data) {
				r.Violation("read-content", "", "%s: entry at %d reads back n=%d err=%v, differs from what was appended", what, e.off, n, err)
			}
		}
		return
	}
	start := s.discarded
	if start > s.size {
		start = s.size
	}
	if s.size > start {
		// whole range at once and in chunk-crossing pieces
		for attempt := 0; attempt < 4; attempt++ {
			buf := make([]byte, s.size-start)
			s.r.Disk.Armed = true
			n, err := s.app.ReadAt(buf, start)
			s.r.Disk.Armed = false
			if err != nil && isInjected(err) {
				continue
			}
			if err != nil || int64(n) != s.size-start {
				r.Violation("read-error", "", "%s: full read from %d of %d bytes returned n=%d err=%v", what, start, s.size-start, n, err)
			}
			if !bytes.Equal(buf, s.data[start:s.size]) {
				i := 0
				for buf[i] == s.data[start+int64(i)] {
					i++
				}
				r.Violation("read-content", "", "%s: byte at offset %d is %#x, last written %#x (size %d, chunk %d)", what, start+int64(i), buf[i], s.data[start+int64(i)], s.size, s.cfg.FileSize)
			}
			break
		}
	}
	// reading at the end must report EOF, not data
	buf := make([]byte, 4)
	if n, err := s.app.ReadAt(buf, s.size); n != 0 && !s.everRewound && !s.crashed {
		r.Violation("read-past-end", "", "%s: read at the end (%d) returned %d bytes err=%v", what, s.size, n, err)
	} else if n == 0 && err == nil {
		r.Violation("read-past-end", "", "%s: read at the end (%d) returned neither data nor error", what, s.size)
	} else if err != nil && !errors.Is(err, io.EOF) && !isInjected(err) && n == 0 {
		// any error is acceptable for a read with no data; EOF is the expected one
		_ = err
	}
}

func (s *c17State) opSetOffset() {
	r := s.r
	if s.ro {
		return
	}
	var to int64
	if s.cfg.Comp != 0 {
		if len(s.entries) == 0 {
			return
		}
		i := r.Intn(len(s.entries))
		to = s.entries[i].off
		if to < s.discarded {
			return
		}
		err := s.app.SetOffset(to)
		s.logOp("setoffset %d (entry %d) err=%v", to, i, err)
		if err != nil {
			r.Violation("setoffset-error", "", "SetOffset(%d) with size %d failed: %v", to, s.size, err)
		}
		s.entries = s.entries[:i]
		s.size = to
		s.rewound = true
		s.everRewound = true
		return
	}
	switch r.Intn(3) {
	case 0:
		back := int64(r.Intn(s.cfg.WBuf + 1))
		to = s.size - back
	case 1:
		back := int64(r.Intn(2*s.cfg.FileSize + 1))
		to = s.size - back
	default:
		to = int64(r.Intn(int(s.size) + 1))
	}
	if to < s.discarded {
		to = s.discarded
	}
	if to < 0 {
		to = 0
	}
	if to > s.size {
		to = s.size
	}
	r.Disk.Armed = true
	err := s.app.SetOffset(to)
	r.Disk.Armed = false
	s.logOp("setoffset %d (size %d) err=%v", to, s.size, err)
	if err != nil {
		if isInjected(err) {
			// the offset may or may not have moved
			cur := s.app.Offset()
			if cur != s.size && cur != to {
				r.Violation("setoffset-partial", "", "after failed SetOffset(%d) offset is %d (was %d)", to, cur, s.size)
			}
			if cur == to {
				s.truncateTo(to)
			}
			return
		}
		r.Violation("setoffset-error", "", "SetOffset(%d) with size %d failed: %v", to, s.size, err)
	}
	// also an illegal one: beyond the size must be refused
	if err := s.app.SetOffset(s.size + 1 + int64(r.Intn(5))); err == nil && to == s.size {
		r.Violation("setoffset-beyond", "", "SetOffset beyond the current size %d was accepted", s.size)
	}
	s.truncateTo(to)
	if off := s.app.Offset(); off != to {
		r.Violation("setoffset", "", "after SetOffset(%d) Offset() is %d", to, off)
	}
}

func (s *c17State) truncateTo(to int64) {
	if to < s.size {
		s.rewound = true
		s.everRewound = true
		s.data = s.data[:to]
		s.size = to
		if to < s.minSince {
			s.minSince = to
		}
	}
}

func (s *c17State) opFlush() {
	if s.ro {
		return
	}
	s.r.Disk.Armed = true
	err := s.app.Flush()
	s.r.Disk.Armed = false
	s.logOp("flush err=%v", err)
	if err != nil && !isInjected(err) {
		s.r.Violation("flush-error", "", "Flush failed: %v", err)
	}
}

func (s *c17State) opSync() {
	if s.ro {
		return
	}
	nf := s.r.Disk.NumOps()
	s.r.Disk.Armed = true
	err := s.app.Sync()
	s.r.Disk.Armed = false
	s.logOp("sync err=%v", err)
	if err != nil {
		if !isInjected(err) {
			s.r.Violation("sync-error", "", "Sync failed: %v", err)
		}
		for _, op := range s.r.Disk.Ops()[nf:] {
			if op.Kind == simcore.OpSyncFailed {
				s.syncFailed = true
			}
		}
		return
	}
	if s.cfg.Comp == 0 && !s.dirtyAtOpen {
		s.synced = append([]byte(nil), s.data...)
		s.minSince = s.size
		s.syncedOK = true
		s.syncFailed = false
	}
}

func (s *c17State) opDiscard() {
	r := s.r
	if !s.cfg.Multi || s.size == 0 {
		return
	}
	off := int64(r.Intn(int(s.size) + 1))
	err := s.app.DiscardUpto(off)
	s.logOp("discard upto %d err=%v", off, err)
	if err != nil {
		r.Violation("discard-error", "", "DiscardUpto(%d) with size %d failed: %v", off, s.size, err)
	}
	if off > s.discarded {
		s.discarded = off
	}
	if err := s.app.DiscardUpto(s.size + 1); err == nil {
		r.Violation("discard-beyond", "", "DiscardUpto beyond the size %d was accepted", s.size)
	}
	// bytes at or after off must be untouched
	if s.cfg.Comp == 0 && s.size > off {
		s.readCheck(off, int(s.size-off), "read-after-discard")
	}
}

func (s *c17State) opCopy() {
	r := s.r
	if s.cfg.Comp != 0 || s.discarded > 0 {
		return
	}
	dst := r.Dir("c17-copy")
	var err error
	if s.cfg.Multi {
		err = s.app.Copy(dst)
	} else {
		err = s.app.Copy(filepath.Join(dst, "single.aof"))
	}
	s.logOp("copy err=%v", err)
	if err != nil {
		if isInjected(err) {
			return
		}
		r.Violation("copy-error", "", "Copy failed: %v", err)
	}
	cp, err := s.open(dst)
	if err != nil {
		r.Violation("copy-open", "", "opening the copy failed: %v", err)
	}
	defer cp.Close()
	sz, _ := cp.Size()
	if sz < s.size {
		r.Violation("copy-content", "", "copy has size %d, source has %d", sz, s.size)
	}
	if s.size > 0 {
		buf := make([]byte, s.size)
		n, err := cp.ReadAt(buf, 0)
		if err != nil || int64(n) != s.size || !bytes.Equal(buf, s.data) {
			r.Violation("copy-content", "", "copy content differs from source (n=%d err=%v)", n, err)
		}
	}
}

// reopen closes (or crashes) and reopens the appendable.
func (s *c17State) reopen(crash bool) {
	r := s.r
	if crash && (s.cfg.Comp != 0 || s.cfg.Prealloc || s.discarded > 0) {
		crash = false
	}
	// The property promises the bytes back "after flush and close"; what survives a
	// crash is the store's durability property (C03), decided there with the same
	// shadow disk. Crash images are therefore not part of this check's verdict.
	crash = false
	if !crash {
		var err error
		for attempt := 0; attempt < 6; attempt++ {
			err = s.app.Close()
			r.Disk.Armed = false
			if err == nil || !isInjected(err) {
				break
			}
		}
		s.logOp("close err=%v", err)
		if err != nil {
			r.Violation("close", "", "Close failed: %v", err)
		}
		if !s.syncedOK || !bytes.Equal(s.synced, s.data) {
			s.dirtyAtOpen = true
		}
		app, err := s.open(s.path)
		if err != nil {
			r.Violation("reopen", "", "reopen after clean close failed: %v", err)
		}
		s.app = app
		s.ro = false
		s.afterReopen(false)
		return
	}

	// crash: pick an instant inside or right after the last API operation
	tr := r.Disk.Snapshot()
	nops := len(tr.Ops)
	k := nops
	if span := nops - s.prevStart; span > 0 && r.IntnS("crash", 2) == 1 {
		// an instant inside the previous API operation (whose effect is then
		// un-acknowledged): nothing it wrote is guaranteed
		k = s.prevStart + r.IntnS("crash", span)
		r.Probe("c17-crash-mid-operation")
	}
	mode := simcore.ImageMode(r.IntnS("crash", int(simcore.NumImageModes)))
	s.incarn++
	dst := r.Dir(fmt.Sprintf("c17-%d", s.incarn%4+1))
	st, err := tr.BuildImage(k, mode, func(n int) int { return r.IntnS("crash", n) }, dst)
	r.Must(err, "build image")
	r.Fault("crash-" + mode.String())
	if st.Torn > 0 {
		r.Fault("torn-write")
	}
	if st.Dropped > 0 {
		r.Fault("lost-unsynced-write")
	}
	if st.AbsentCreated > 0 {
		r.Fault("lost-unsynced-create")
	}
	midOp := k < nops
	s.logOp("crash at op %d/%d mode=%s stats=%+v", k, nops, mode, st)
	// retire the old instance (its later writes are not part of the image)
	r.Disk.Detach()
	s.app.Close()
	s.path = dst
	r.Disk.Attach(dst)
	var app appendable.Appendable
	pv, stack := r.Catch(func() { app, err = s.open(dst) })
	if pv != nil {
		r.Violation("open-panic", "", "opening the crash image (op %d/%d, %s, %+v) panicked: %v\n%s", k, nops, mode, st, pv, stack)
	}
	if err != nil {
		if p, inflight := tr.CreationInFlight(k); inflight && errors.Is(err, singleapp.ErrCorruptedMetadata) {
			r.Finding("reopen-after-crash", "C17:crash-during-file-creation", "crash while %s was being created (op %d/%d, %s): the file is left without a complete header and reopening fails: %v", filepath.Base(p), k, nops, mode, err)
			s.app = nil
			panic(stopC17{})
		}
		r.Violation("reopen-after-crash", "", "reopen of crash image (op %d/%d, %s, %+v) failed: %v", k, nops, mode, st, err)
	}
	s.app = app
	s.ro = false

	// durability oracle: bytes that were synced and not rewound since must be there
	guaranteed := int64(0)
	if midOp {
		// the previous operation had not returned: what held before it holds
		s.synced, s.syncedOK, s.minSince, s.syncFailed = s.prevDur.synced, s.prevDur.syncedOK, s.prevDur.minSince, s.prevDur.syncFailed
	}
	if s.syncedOK && (s.cfg.Retry || !s.cfg.Multi) && !(s.syncFailed && !s.cfg.Retry) {
		guaranteed = int64(len(s.synced))
		if s.minSince < guaranteed {
			guaranteed = s.minSince
		}
	}
	sz, err := app.Size()
	if err != nil {
		r.Violation("reopen-after-crash", "", "Size() after crash failed: %v", err)
	}
	if sz < guaranteed {
		r.Violation("durability", "", "after crash (op %d/%d, %s) size is %d but %d bytes had been synced", k, nops, mode, sz, guaranteed)
	}
	if guaranteed > 0 {
		content := make([]byte, guaranteed)
		n, err := app.ReadAt(content, 0)
		if err != nil || int64(n) != guaranteed {
			r.Violation("durability", "", "after crash (op %d/%d, %s) reading the %d synced bytes returned n=%d err=%v", k, nops, mode, guaranteed, n, err)
		}
		if !bytes.Equal(content, s.synced[:guaranteed]) {
			i := 0
			for content[i] == s.synced[i] {
				i++
			}
			r.Violation("durability", "", "after crash (op %d/%d, %s) synced byte at offset %d changed: %#x, was %#x", k, nops, mode, i, content[i], s.synced[i])
		}
	}
	// what lies beyond the synced extent is unspecified after a crash: do what
	// a user of the log does on recovery, rewind to the known-good size
	if err := app.SetOffset(guaranteed); err != nil {
		r.Violation("reopen-after-crash", "", "SetOffset(%d) on the recovered appendable (size %d) failed: %v", guaranteed, sz, err)
	}
	s.data = append([]byte(nil), s.synced[:guaranteed]...)
	s.size = guaranteed
	s.hw = sz
	s.rewound = sz > guaranteed
	s.synced = append([]byte(nil), s.data...)
	s.minSince = guaranteed
	s.syncedOK = true
	s.syncFailed = false
	s.dirtyAtOpen = false
	s.crashed = true
	r.Probe("c17-crash-reopen")
}

func (s *c17State) afterReopen(crash bool) {
	r := s.r
	sz, err := s.app.Size()
	if err != nil {
		r.Violation("reopen", "", "Size() after reopen failed: %v", err)
	}
	s.logOp("reopened size=%d (logical %d, high-water %d)", sz, s.size, s.hw)
	if !bytes.Equal(s.app.Metadata(), s.cfg.Meta) && !(len(s.app.Metadata()) == 0 && len(s.cfg.Meta) == 0) {
		r.Violation("metadata", "", "metadata after reopen %x differs from %x", s.app.Metadata(), s.cfg.Meta)
	}
	switch {
	case sz == s.size:
	case s.cfg.Prealloc && sz >= s.size:
		// preallocated files report their allocated size
		s.preallocRewind()
	case sz > s.size && sz <= s.hw && s.cfg.Comp == 0:
		// files are never truncated: after a rewind whose tail was not
		// overwritten the reopened appendable reports the old, larger size
		r.Probe("c17-reopen-size-after-rewind")
		r.Finding("reopen-size", "C17:reopen-size-after-rewind", "size after close+reopen is %d, logical size before close was %d (rewound from %d without overwriting)", sz, s.size, s.hw)
		s.adoptTail(sz)
	case sz > s.size && s.cfg.Comp != 0 && s.rewound:
		r.Probe("c17-reopen-size-after-rewind")
		r.Finding("reopen-size", "C17:reopen-size-after-rewind", "size after close+reopen is %d, logical size before close was %d (rewound)", sz, s.size)
		// with compression the stale tail cannot be addressed: stop this run here
		panic(stopC17{})
	default:
		r.Violation("reopen-size", "", "size after close+reopen is %d, logical size before close was %d (high-water %d)", sz, s.size, s.hw)
	}
	s.hw = s.size
	s.rewound = false
	if s.keepHW > s.size {
		s.hw = s.keepHW
		s.rewound = true
	}
	s.keepHW = 0
	// everything that was flushed by Close is in the files now, but not fsynced
	s.syncedOK = s.syncedOK && !crash
}

type stopC17 struct{}

type c17Dur struct {
	synced     []byte
	syncedOK   bool
	minSince   int64
	syncFailed bool
}

// preallocRewind: a preallocated file reports its allocated size as offset
// when opened; users (the store) position it explicitly, so does the harness.
func (s *c17State) preallocRewind() {
	if !s.cfg.Prealloc {
		return
	}
	if err := s.app.SetOffset(s.size); err != nil {
		s.r.Violation("setoffset-error", "", "SetOffset(%d) on a freshly opened preallocated appendable failed: %v", s.size, err)
	}
}

func (s *c17State) adoptTail(sz int64) {
	extra := make([]byte, sz-s.size)
	if len(extra) > 0 {
		n, err := s.app.ReadAt(extra, s.size)
		if (err != nil || n != len(extra)) && s.crashed {
			// the stale tail lies in files whose un-synced content was lost in an
			// earlier crash: rewind to the logical size instead of adopting it
			if err := s.app.SetOffset(s.size); err != nil {
				s.r.Violation("reopen", "", "SetOffset(%d) after reopen failed: %v", s.size, err)
			}
			s.keepHW = sz
			return
		}
		if err != nil || n != len(extra) {
			s.r.Violation("reopen", "", "reading tail [%d,%d) after reopen: n=%d err=%v", s.size, sz, n, err)
		}
	}
	s.data = append(s.data, extra...)
	s.size = sz
	// adopted bytes are of unknown durability
	s.dirtyAtOpen = true
}
