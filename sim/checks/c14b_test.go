package checks

import (
	"time"

	"context"
	"fmt"
	"github.com/codenotary/immudb/pkg/truncator"
	"strings"

	"github.com/codenotary/immudb/embedded/logger"
	"github.com/codenotary/immudb/pkg/api/protomodel"
	"github.com/codenotary/immudb/pkg/api/schema"
	"github.com/codenotary/immudb/pkg/database"
	"google.golang.org/protobuf/types/known/structpb"

	"verifsim/simcore"
)

// C14, layer B — truncation through the database's truncator.
//
// A database with a SQL table, a document collection and plain keys is written
// by concurrent tasks while a truncator task runs the real
// database.NewVlogTruncator(...).TruncateUptoTx (copy of the SQL/document
// catalog into a new transaction, then value-log truncation) at seeded cut
// points. Afterwards, and again after a restart: everything written at or after
// the last cut reads back unchanged through KV, SQL and document APIs, the
// catalog still works (new rows and documents can be written and found), and
// transactions at or after the cut can still be exported.

type c14bItem struct {
	tx  uint64
	key string // KV key, SQL primary key or document tag
	val string
}

func c14bBody(r *simcore.Run) {
	cfg := genStCfg(r, false)
	cfg.Comp = 0
	cfg.Prealloc = false
	cfg.Embedded = false
	cfg.FileSize = r.Pick(256, 512, 2048)
	cfg.IdxNodeSize = 4096
	cfg.HdrVersion = 1
	cfg.MaxConc = 30
	cfg.sig(r)
	r.Logf("cfg %+v (database truncator)", cfg)
	root := r.Dir("db-0")
	bigKeys := func(o *database.Options) { o.WithStoreOptions(o.GetStoreOptions().WithMaxKeyLen(1024)) }
	d, err := openDB(r, root, cfg, bigKeys)
	if err != nil {
		r.Violation("open-new", "", "cannot create a database: %v", err)
	}
	r.Defer(func() { d.Close() })
	ctx := context.Background()
	// layer C: the retention loop of pkg/truncator chooses the cuts by the (simulated) clock; some of
	// those databases hold plain keys only (no SQL catalog: the catalog copy that precedes every
	// truncation is then a transaction without entries)
	useLoop := r.Pct(40)
	kvOnly := useLoop && r.Pct(35)
	if !kvOnly {
		if _, _, err := d.SQLExec(ctx, nil, &schema.SQLExecRequest{Sql: "CREATE TABLE t (id INTEGER, v VARCHAR[64], PRIMARY KEY id, CONSTRAINT c_pos CHECK (id > 0))"}); err != nil {
			r.Violation("ddl", "", "CREATE TABLE failed: %v", err)
		}
		if _, _, err := d.SQLExec(ctx, nil, &schema.SQLExecRequest{Sql: "CREATE INDEX ON t (v)"}); err != nil {
			r.Violation("ddl", "", "CREATE INDEX failed: %v", err)
		}
		if _, err := d.CreateCollection(ctx, "admin", &protomodel.CreateCollectionRequest{Name: "c", Fields: []*protomodel.Field{{Name: "tag", Type: protomodel.FieldType_STRING}}, Indexes: []*protomodel.Index{{Fields: []string{"tag"}}}}); err != nil {
			r.Violation("ddl", "", "CreateCollection failed: %v", err)
		}
	}
	r.Sched.SetSwitchPct(r.Pick(100, 50, 20))

	retention := time.Duration(r.Pick(24, 48)) * time.Hour
	var loop *truncator.Truncator
	loopRuns := 0
	if useLoop {
		loop = truncator.NewTruncator(d, retention, time.Duration(r.Pick(1, 2, 5))*time.Hour, &c14cLogger{n: &loopRuns, r: r})
		if err := loop.Start(); err != nil {
			r.Violation("truncator-start", "", "the truncator does not start: %v", err)
		}
		r.Yield("c14c-truncator-started")
		r.Defer(func() { loop.Stop() })
		r.Logf("retention loop: retention %v", retention)
	}
	var kvs, rows, docs []c14bItem
	seq := 0
	pad := func(n int) string { return strings.Repeat("x", 20+r.Intn(40)) + fmt.Sprint(n) }
	writer := func(name string, n int) func() {
		return func() {
			for i := 0; i < n; i++ {
				r.Yield("c14b-write")
				if useLoop {
					r.Sched.Sleep(time.Duration(r.Pick(1, 3, 5, 5)) * time.Hour) // (the scheduler calls a run stuck after 6 idle simulated hours)
				}
				seq++
				id := seq
				kind := r.Intn(3)
				if kvOnly {
					kind = 0
				}
				switch kind {
				case 0:
					k, v := fmt.Sprintf("k%d", id), pad(id)
					hdr, err := d.Set(ctx, &schema.SetRequest{KVs: []*schema.KeyValue{{Key: []byte(k), Value: []byte(v)}}})
					if err != nil {
						if isBenignTxErr(err) {
							continue
						}
						r.Violation("write", "", "%s: Set failed: %v", name, err)
					}
					kvs = append(kvs, c14bItem{hdr.Id, k, v})
				case 1:
					v := pad(id)
					_, ctxs, err := d.SQLExec(ctx, nil, &schema.SQLExecRequest{Sql: fmt.Sprintf("INSERT INTO t (id, v) VALUES (%d, '%s')", id, v)})
					if err != nil {
						if isBenignTxErr(err) {
							continue
						}
						r.Violation("write", "", "%s: INSERT failed: %v", name, err)
					}
					if len(ctxs) == 1 && ctxs[0].TxHeader() != nil {
						rows = append(rows, c14bItem{ctxs[0].TxHeader().ID, fmt.Sprint(id), v})
					}
				default:
					tag := fmt.Sprintf("doc%d", id)
					doc, _ := structpb.NewStruct(map[string]interface{}{"tag": tag, "body": pad(id)})
					resp, err := d.InsertDocuments(ctx, "admin", &protomodel.InsertDocumentsRequest{CollectionName: "c", Documents: []*structpb.Struct{doc}})
					if err != nil {
						if isBenignTxErr(err) || strings.Contains(err.Error(), "conflict") {
							continue
						}
						r.Violation("write", "", "%s: InsertDocuments failed: %v", name, err)
					}
					docs = append(docs, c14bItem{resp.TransactionId, tag, doc.Fields["body"].GetStringValue()})
				}
			}
		}
	}
	var cut uint64
	truncations := 0
	truncate := func() {
		st, err := d.CurrentState()
		if err != nil || st.TxId < 3 {
			return
		}
		c := 2 + uint64(r.Intn(int(st.TxId-1)))
		tr := database.NewVlogTruncator(d, logger.NewMemoryLoggerWithLevel(logger.LogError))
		var terr error
		pv, stack := r.Catch(func() { terr = tr.TruncateUptoTx(ctx, c) })
		if pv != nil {
			r.Violation("panic", "", "TruncateUptoTx(%d) panicked: %v\n%s", c, pv, stack)
		}
		r.Logf("truncate up to tx %d of %d -> %v", c, st.TxId, terr)
		if terr != nil {
			if isBenignTxErr(terr) || strings.Contains(terr.Error(), "read conflict") {
				return
			}
			r.Violation("truncate", "", "TruncateUptoTx(%d) with %d committed failed: %v", c, st.TxId, terr)
		}
		truncations++
		r.Fault("value-log-truncation")
		if c > cut {
			cut = c
		}
	}
	var tasks []*simcore.Task
	nW := 1 + r.Intn(3)
	for w := 0; w < nW; w++ {
		name := fmt.Sprintf("w%d", w)
		tasks = append(tasks, r.Sched.Go(name, writer(name, 3+r.Intn(8))))
	}
	if !useLoop {
		tasks = append(tasks, r.Sched.Go("truncator", func() {
			for i := 0; i < 1+r.Intn(3); i++ {
				r.Yield("c14b-truncate")
				truncate()
			}
		}))
	}
	for _, t := range tasks {
		t.Join()
	}
	if useLoop {
		// let the loop see the last writes age, then stop it
		for h := r.Pick(2, 26, 50); h > 0; h -= 5 {
			r.Sched.Sleep(time.Duration(min(h, 5)) * time.Hour)
		}
		if err := loop.Stop(); err != nil {
			r.Violation("truncator-stop", "", "stopping the truncator failed: %v", err)
		}
		// every truncation so far was planned for a time not later than the start of the day
		// (now - retention): whatever is younger must be readable. Transaction times never decrease.
		now := time.Now().Add(-retention)
		limit := time.Date(now.Year(), now.Month(), now.Day(), 0, 0, 0, 0, now.Location()).Unix()
		st, _ := d.CurrentState()
		cut = st.TxId + 1
		for id := uint64(1); id <= st.TxId; id++ {
			tx, err := d.TxByID(ctx, &schema.TxRequest{Tx: id})
			if err != nil {
				r.Violation("read-tx", "", "TxByID(%d) after the retention loop failed: %v", id, err)
			}
			if tx.Header.Ts > limit {
				cut = id
				break
			}
		}
		if loopRuns > 0 {
			r.Probe("c14c-retention-loop-truncated")
			r.Fault("value-log-truncation")
		}
		r.Logf("retention loop: %d truncation(s) completed; everything from tx %d of %d on must be readable", loopRuns, cut, st.TxId)
	} else if truncations == 0 {
		truncate()
	}

	verify := func(what string) {
		for _, it := range kvs {
			if it.tx < cut {
				continue
			}
			e, err := d.Get(ctx, &schema.KeyRequest{Key: []byte(it.key)})
			if err != nil || string(e.Value) != it.val {
				c05IdxViol(r, "read-value", "%s: key %q written by tx %d (cut %d) reads back (%q, %v), expected %q", what, it.key, it.tx, cut, e.GetValue(), err, it.val)
			}
		}
		for _, it := range rows {
			if it.tx < cut {
				continue
			}
			res, err := d.SQLQueryAll(ctx, nil, &schema.SQLQueryRequest{Sql: "SELECT id, v FROM t WHERE id = " + it.key})
			if err != nil || len(res) != 1 || res[0].ValuesByPosition[1].RawValue() != it.val {
				c05IdxViol(r, "sql-after-truncation", "%s: row id=%s written by tx %d (cut %d) reads back (%v, %v)", what, it.key, it.tx, cut, res, err)
			}
		}
		for _, it := range docs {
			if it.tx < cut {
				continue
			}
			resp, err := d.SearchDocuments(ctx, &protomodel.Query{CollectionName: "c", Expressions: []*protomodel.QueryExpression{{FieldComparisons: []*protomodel.FieldComparison{{Field: "tag", Operator: protomodel.ComparisonOperator_EQ, Value: structpb.NewStringValue(it.key)}}}}}, 0)
			if err != nil {
				c05IdxViol(r, "documents-after-truncation", "%s: search for document %s (tx %d, cut %d) failed: %v", what, it.key, it.tx, cut, err)
			}
			rev, rerr := resp.Read(ctx)
			resp.Close()
			if rerr != nil || rev.Document.Fields["body"].GetStringValue() != it.val {
				c05IdxViol(r, "documents-after-truncation", "%s: document %s written by tx %d (cut %d) reads back (%v, %v)", what, it.key, it.tx, cut, rev, rerr)
			}
		}
		if kvOnly {
			st, _ := d.CurrentState()
			for id := cut; id != 0 && id <= st.TxId; id++ {
				if _, _, _, err := d.ExportTxByID(ctx, &schema.ExportTxRequest{Tx: id}); err != nil {
					r.Violation("export", "", "%s: ExportTxByID(%d) (cut %d) failed: %v", what, id, cut, err)
				}
			}
			return
		}
		// the catalog works: tables and collections are still there and writable
		seq++
		_, _, ierr := d.SQLExec(ctx, nil, &schema.SQLExecRequest{Sql: fmt.Sprintf("INSERT INTO t (id, v) VALUES (%d, 'after')", 100000+seq)})
		if ierr != nil && !isBenignTxErr(ierr) {
			r.Violation("sql-after-truncation", "catalog", "%s: INSERT into the table created before the truncation failed: %v", what, ierr)
		}
		// ... and so are its constraints and secondary indexes
		if _, _, err := d.SQLExec(ctx, nil, &schema.SQLExecRequest{Sql: "INSERT INTO t (id, v) VALUES (-5, 'neg')"}); err == nil || !strings.Contains(err.Error(), "check") {
			r.Violation("sql-after-truncation", "check-constraint", "%s: INSERT of id=-5 against CHECK (id > 0) declared before the truncation returned %v", what, err)
		}
		if res, err := d.SQLQueryAll(ctx, nil, &schema.SQLQueryRequest{Sql: "SELECT id FROM t USE INDEX ON (v) WHERE v = 'after'"}); ierr == nil && (err != nil || len(res) == 0) {
			r.Violation("sql-after-truncation", "secondary-index", "%s: query through the index on v for a row just written returned (%d rows, %v)", what, len(res), err)
		}
		doc, _ := structpb.NewStruct(map[string]interface{}{"tag": fmt.Sprintf("after%d", seq), "body": "after"})
		if _, err := d.InsertDocuments(ctx, "admin", &protomodel.InsertDocumentsRequest{CollectionName: "c", Documents: []*structpb.Struct{doc}}); err != nil && !isBenignTxErr(err) && !strings.Contains(err.Error(), "conflict") {
			r.Violation("documents-after-truncation", "catalog", "%s: InsertDocuments into the collection created before the truncation failed: %v", what, err)
		}
		// exports of transactions at or after the cut terminate and succeed
		st, _ := d.CurrentState()
		for id := cut; id != 0 && id <= st.TxId; id++ {
			if _, _, _, err := d.ExportTxByID(ctx, &schema.ExportTxRequest{Tx: id}); err != nil {
				r.Violation("export", "", "%s: ExportTxByID(%d) (cut %d) failed: %v", what, id, cut, err)
			}
		}
	}
	verify("after truncation")
	if err := d.Close(); err != nil {
		r.Violation("close", "", "Close failed: %v", err)
	}
	d, err = openDB(r, root, cfg, bigKeys)
	if err != nil {
		r.Violation("reopen", "", "reopen after truncation failed: %v", err)
	}
	verify("after restart")
	r.Sig("c14b", truncations, cut > 0, len(kvs), len(rows), len(docs))
	r.Sample(map[string]interface{}{"layer": "database truncator", "retention_loop": useLoop, "kv_only": kvOnly, "loop_truncations": loopRuns, "truncations": truncations, "last_cut": cut, "kv": len(kvs), "rows": len(rows), "documents": len(docs)})
}

// c14cLogger counts the truncations the retention loop completed.
type c14cLogger struct {
	logger.Logger
	n *int
	r *simcore.Run
}

func (l *c14cLogger) Infof(f string, a ...interface{}) {
	if strings.HasPrefix(f, "finished truncating") {
		*l.n++
	}
	l.r.Logf("truncator: "+f, a...)
}
func (l *c14cLogger) Errorf(f string, a ...interface{}) {
	m := fmt.Sprintf(f, a...)
	l.r.Logf("truncator: ERROR %s", m)
}
func (l *c14cLogger) Warningf(f string, a ...interface{}) {}
func (l *c14cLogger) Debugf(f string, a ...interface{})   {}
func (l *c14cLogger) Close() error                        { return nil }
