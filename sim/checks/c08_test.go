package checks

import (
	"bytes"
	"crypto/sha256"
	"fmt"

	"github.com/codenotary/immudb/embedded/ahtree"
	"github.com/codenotary/immudb/embedded/htree"

	"verifsim/simcore"
)

// C08 — hash trees equal the reference Merkle construction.
//
// System: real ahtree.AHtree on real files under the shadow disk, and
// htree.HTree in memory. Oracle: the reference construction in
// merkle_ref_test.go (no code shared with the implementation).

func init() {
	register(&simcore.Check{ID: "C08", Body: c08Body})
}

type c08Cfg struct {
	SyncThld   int `json:"sync_thld"`
	DataCache  int `json:"data_cache_slots"`
	DigCache   int `json:"digests_cache_slots"`
	FileSize   int `json:"file_size"`
	WriteBuf   int `json:"write_buffer"`
	MaxPayload int `json:"max_payload"`
}

type c08State struct {
	r    *simcore.Run
	cfg  c08Cfg
	dir  string
	t    *ahtree.AHtree
	data [][]byte // current leaves (payloads)
	seq  int
	ops  []string

	// durability bookkeeping
	synced    [][]byte // leaves at the last successful Sync
	minSince  int      // lowest size since that Sync
	everAt    []map[string]bool
	incarn    int
	prevStart int
	opStart   int
	prevSync  [][]byte
	prevMin   int
	curSync   [][]byte
	curMin    int

	resetSinceOpen  bool
	prevReset       bool
	curReset        bool
	staleHW         int  // size the persisted tree had before it was rewound
	afterResetCrash bool // verifying a tree recovered from a crash that followed a rewind
}

// adoptLeaves re-reads leaves 1..n from the tree (each must be a payload that
// was appended at that position at some time) and makes them the model.
func (s *c08State) adoptLeaves(n int) {
	var leaves [][]byte
	for i := 1; i <= n; i++ {
		d, err := s.t.DataAt(uint64(i))
		if err != nil {
			s.r.Violation("data", "", "DataAt(%d) of %d failed: %v", i, n, err)
		}
		if i > len(s.everAt) || !s.everAt[i-1][string(d)] {
			s.r.Violation("phantom-leaf", "", "leaf %d holds a payload that was never appended at that position", i)
		}
		leaves = append(leaves, append([]byte(nil), d...))
	}
	s.data = leaves
}

func (s *c08State) logOp(f string, a ...interface{}) {
	l := fmt.Sprintf(f, a...)
	s.ops = append(s.ops, l)
	s.r.Logf("%s", l)
}

func (s *c08State) opts() *ahtree.Options {
	return ahtree.DefaultOptions().
		WithSyncThld(s.cfg.SyncThld).
		WithDataCacheSlots(s.cfg.DataCache).
		WithDigestsCacheSlots(s.cfg.DigCache).
		WithFileSize(s.cfg.FileSize).
		WithWriteBufferSize(s.cfg.WriteBuf)
}

func (s *c08State) open(dir string) error {
	var err error
	var t *ahtree.AHtree
	pv, stack := s.r.Catch(func() { t, err = ahtree.Open(dir, s.opts()) })
	if pv != nil {
		s.r.Violation("open-panic", "", "ahtree.Open panicked: %v\n%s", pv, stack)
	}
	if err != nil {
		return err
	}
	s.t = t
	return nil
}

func (s *c08State) payload() []byte {
	s.seq++
	n := 0
	switch s.r.Intn(5) {
	case 0:
		n = 0
	case 1:
		n = 1 + s.r.Intn(4)
	default:
		n = 1 + s.r.Intn(s.cfg.MaxPayload)
	}
	b := make([]byte, n)
	x := uint32(s.seq)*2654435761 + 7
	for i := range b {
		x = x*1664525 + 1013904223
		b[i] = byte(x >> 24)
	}
	if n >= 4 {
		b[0], b[1], b[2], b[3] = byte(s.seq>>24), byte(s.seq>>16), byte(s.seq>>8), byte(s.seq)
	}
	return b
}

func c08Body(r *simcore.Run) {
	s := &c08State{r: r}
	c := &s.cfg
	c.SyncThld = r.Pick(1, 2, 3, 8, 1000)
	c.DataCache = r.Pick(1, 2, 8, 1000)
	c.DigCache = r.Pick(1, 2, 8, 1000)
	c.FileSize = r.Pick(128, 256, 1024, 1<<20)
	c.WriteBuf = r.Pick(64, 256, 4096)
	c.MaxPayload = r.Pick(8, 40, 64)
	r.Sig("c08cfg", c.SyncThld, c.DataCache, c.DigCache, c.FileSize, c.WriteBuf)
	r.Logf("cfg %+v", *c)
	s.dir = r.Dir("aht-0")
	r.Disk.Attach(s.dir)
	if err := s.open(s.dir); err != nil {
		r.Violation("open-new", "", "cannot open a new hash tree: %v", err)
	}
	r.Defer(func() {
		if s.t != nil {
			s.t.Close()
		}
	})
	s.c08HTree()
	nOps := 6 + r.Intn(30)
	maxN := 40
	for i := 0; i < nOps; i++ {
		s.prevStart, s.prevSync, s.prevMin = s.opStart, s.curSync, s.curMin
		s.opStart, s.curSync, s.curMin = r.Disk.NumOps(), s.synced, s.minSince
		s.prevReset, s.curReset = s.curReset, s.resetSinceOpen
		switch w := r.Intn(100); {
		case w < 55:
			if len(s.data) < maxN {
				s.opAppend()
			}
		case w < 67:
			s.opReset()
		case w < 75:
			s.opSync()
		case w < 83:
			s.opReopen(false)
		case w < 91:
			// (restart, not crash: the property lists append/reset-size/sync/reopen; crash
			// recovery of the hash tree is part of the store's durability property C03)
			s.opReopen(false)
		default:
			s.verify("check", true)
		}
		if i%3 == 2 {
			s.verify("periodic", false)
		}
	}
	s.verify("final", true)
	s.opReopen(false)
	s.verify("final-reopened", true)
	r.Sample(map[string]interface{}{"config": *c, "ops": s.ops})
}

func (s *c08State) opAppend() {
	p := s.payload()
	n, h, err := s.t.Append(p)
	s.logOp("append #%d len=%d -> n=%d err=%v", s.seq, len(p), n, err)
	if err != nil {
		s.r.Violation("append", "", "Append failed: %v", err)
	}
	s.data = append(s.data, p)
	if n != uint64(len(s.data)) {
		s.r.Violation("append", "", "Append returned n=%d, tree has %d leaves", n, len(s.data))
	}
	_ = h
	for len(s.everAt) < len(s.data) {
		s.everAt = append(s.everAt, map[string]bool{})
	}
	s.everAt[len(s.data)-1][string(p)] = true
}

func (s *c08State) opReset() {
	if len(s.data) == 0 {
		return
	}
	to := s.r.Intn(len(s.data) + 1)
	s.r.Nontrivial()
	err := s.t.ResetSize(uint64(to))
	s.logOp("resetsize %d (size %d) err=%v", to, len(s.data), err)
	if err != nil {
		s.r.Violation("resetsize", "", "ResetSize(%d) with size %d failed: %v", to, len(s.data), err)
	}
	// ResetSize syncs what is there before rewinding
	if to < len(s.data) {
		s.resetSinceOpen = true
		if len(s.data) > s.staleHW {
			s.staleHW = len(s.data)
		}
	}
	s.data = s.data[:to]
	if to < s.minSince {
		s.minSince = to
	}
	if err := s.t.ResetSize(uint64(to + 1)); err == nil {
		s.r.Violation("resetsize", "", "ResetSize to a larger size (%d > %d) was accepted", to+1, to)
	}
}

func (s *c08State) opSync() {
	err := s.t.Sync()
	s.logOp("sync err=%v", err)
	if err != nil {
		s.r.Violation("sync", "", "Sync failed: %v", err)
	}
	s.synced = append([][]byte(nil), s.data...)
	s.minSince = len(s.data)
	if len(s.data) >= s.staleHW {
		// every rolled-back entry has been overwritten and synced
		s.resetSinceOpen = false
		s.staleHW = 0
	}
}

func (s *c08State) opReopen(crash bool) {
	r := s.r
	r.Nontrivial() // no faults in this check: a run counts when it restarts or rolls the tree back
	if !crash {
		err := s.t.Close()
		s.logOp("close err=%v", err)
		if err != nil {
			r.Violation("close", "", "Close failed: %v", err)
		}
		s.t = nil
		if err := s.open(s.dir); err != nil {
			r.Violation("reopen", "", "reopen after clean close failed: %v", err)
		}
		if got := s.t.Size(); got != uint64(len(s.data)) {
			if got > uint64(len(s.data)) && s.resetSinceOpen && int(got) <= len(s.everAt) {
				r.Finding("reopen-size", "C08:resetsize-not-persistent", "ResetSize rewound the tree to a smaller size, after close+reopen the size is %d again (was %d before Close): the rolled-back leaves are back (pointing into payload/digest bytes that may have been overwritten since)", got, len(s.data))
				r.EndRun()
			} else {
				r.Violation("reopen-size", "", "size after close+reopen is %d, was %d", got, len(s.data))
			}
		}
		// Close flushes but the data is only durable after a Sync
		return
	}
	tr := r.Disk.Snapshot()
	nops := len(tr.Ops)
	k := nops
	synced, minSince := s.synced, s.minSince
	resetPending := s.resetSinceOpen
	if span := nops - s.prevStart; span > 0 && r.IntnS("crash", 2) == 1 {
		k = s.prevStart + r.IntnS("crash", span)
		synced, minSince = s.prevSync, s.prevMin
		resetPending = resetPending || s.prevReset || s.curReset
	}
	mode := simcore.ImageMode(r.IntnS("crash", int(simcore.NumImageModes)))
	s.incarn++
	dst := r.Dir(fmt.Sprintf("aht-%d", s.incarn%3+1))
	st, err := tr.BuildImage(k, mode, func(n int) int { return r.IntnS("crash", n) }, dst)
	r.Must(err, "build image")
	r.Fault("crash-" + mode.String())
	if st.Dropped > 0 {
		r.Fault("lost-unsynced-write")
	}
	if st.Torn > 0 {
		r.Fault("torn-write")
	}
	s.logOp("crash at op %d/%d mode=%s %+v", k, nops, mode, st)
	r.Disk.Detach()
	s.t.Close()
	s.t = nil
	s.dir = dst
	r.Disk.Attach(dst)
	if err := s.open(dst); err != nil {
		if p, inflight := tr.CreationInFlight(k); inflight {
			r.Finding("reopen-after-crash", "C08:crash-during-file-creation", "crash while %s was being created: the hash tree cannot be reopened: %v", p, err)
			r.EndRun()
		}
		r.Violation("reopen-after-crash", "", "reopen of crash image (op %d/%d, %s, %+v) failed: %v", k, nops, mode, st, err)
	}
	guaranteed := len(synced)
	if minSince < guaranteed {
		guaranteed = minSince
	}
	got := int(s.t.Size())
	// sticky: a tree recovered from such a crash may hide stale entries that
	// only show up later
	s.afterResetCrash = s.afterResetCrash || resetPending
	if resetPending && got > len(s.data) {
		r.Finding("reopen-size", "C08:resetsize-not-persistent", "ResetSize rewound the tree to a smaller size, after a crash the reopened tree has %d leaves (%d before the crash): rolled-back leaves are back", got, len(s.data))
		r.EndRun()
	}
	if got < guaranteed {
		r.Violation("durability", "", "after crash (op %d/%d, %s) the tree has %d leaves, %d had been synced", k, nops, mode, got, guaranteed)
	}
	var leaves [][]byte
	for i := 1; i <= got; i++ {
		d, err := s.t.DataAt(uint64(i))
		if err != nil {
			// (after a ResetSize whose rolled-back entries were not all overwritten and synced
			// yet, recovered leaves may point into overwritten payload bytes: known finding)
			s.staleViol("reopen-after-crash", "DataAt(%d) of %d after crash failed: %v", i, got, err)
		}
		if i <= guaranteed && !bytes.Equal(d, synced[i-1]) {
			r.Violation("durability", "", "after crash (op %d/%d, %s) synced leaf %d changed", k, nops, mode, i)
		}
		if i > len(s.everAt) || !s.everAt[i-1][string(d)] {
			s.staleViol("phantom-leaf", "after crash leaf %d holds a payload that was never appended at that position", i)
		}
		leaves = append(leaves, append([]byte(nil), d...))
	}
	s.data = leaves
	s.synced = append([][]byte(nil), leaves...)
	s.minSince = len(leaves)
	s.resetSinceOpen = false
	// whatever was recovered must be a well-formed tree
	s.verify("after-crash", true)
}

// verify compares the whole public surface with the reference construction.
func (s *c08State) verify(what string, full bool) {
	r := s.r
	t := s.t
	n := len(s.data)
	if got := t.Size(); got != uint64(n) {
		s.staleViol("size", "%s: Size() is %d, %d leaves were appended", what, got, n)
	}
	leaves := make([][32]byte, n)
	for i := range leaves {
		leaves[i] = refLeaf(s.data[i])
	}
	if n == 0 {
		return
	}
	rn, root, err := t.Root()
	if err != nil || rn != uint64(n) || root != refMTH(leaves) {
		s.staleViol("root", "%s: Root() = (%d,%x,%v), reference root over %d leaves is %x", what, rn, root[:6], err, n, refMTH(leaves))
	}
	roots := make([][32]byte, n+1)
	for k := 1; k <= n; k++ {
		roots[k] = refMTH(leaves[:k])
		if !full && k != n && k != 1+s.r.Intn(n) {
			continue
		}
		got, err := t.RootAt(uint64(k))
		if err != nil || got != roots[k] {
			s.staleViol("root", "%s: RootAt(%d) = %x,%v; reference is %x", what, k, got[:6], err, roots[k][:6])
		}
		d, err := t.DataAt(uint64(k))
		if err != nil || !bytes.Equal(d, s.data[k-1]) {
			s.staleViol("data", "%s: DataAt(%d) differs from the appended payload (err %v)", what, k, err)
		}
	}
	pairs := 0
	for j := 1; j <= n; j++ {
		for i := 1; i <= j; i++ {
			if !full && r.Intn(8) != 0 {
				continue
			}
			pairs++
			ip, err := t.InclusionProof(uint64(i), uint64(j))
			if err != nil {
				s.staleViol("inclusion-proof", "%s: InclusionProof(%d,%d) failed: %v", what, i, j, err)
			}
			if !ahtree.VerifyInclusion(ip, uint64(i), uint64(j), leaves[i-1], roots[j]) {
				s.staleViol("inclusion-proof", "%s: InclusionProof(%d,%d) does not verify against the reference root", what, i, j)
			}
			if !refVerifyInclusion(ip, uint64(i), uint64(j), leaves[i-1], roots[j]) {
				s.staleViol("inclusion-proof", "%s: InclusionProof(%d,%d) is not the audit path of the reference tree", what, i, j)
			}
			cp, err := t.ConsistencyProof(uint64(i), uint64(j))
			if err != nil {
				s.staleViol("consistency-proof", "%s: ConsistencyProof(%d,%d) failed: %v", what, i, j, err)
			}
			if !ahtree.VerifyConsistency(cp, uint64(i), uint64(j), roots[i], roots[j]) {
				s.staleViol("consistency-proof", "%s: ConsistencyProof(%d,%d) does not verify against the reference roots", what, i, j)
			}
			if i == j {
				if !ahtree.VerifyLastInclusion(ip, uint64(i), leaves[i-1], roots[i]) {
					s.staleViol("inclusion-proof", "%s: last-inclusion proof of %d does not verify", what, i)
				}
			}
			if r.Intn(6) == 0 {
				s.tamperInclusion(what, ip, i, j, leaves, roots)
				s.tamperConsistency(what, cp, i, j, roots)
			}
		}
	}
	r.Sig("c08n", n)
}

// staleViol: after a crash that followed a ResetSize whose rolled-back entries
// had not all been overwritten and synced yet, inconsistencies of the
// recovered tree are attributed to the known non-persistent-rewind finding.
func (s *c08State) staleViol(class, format string, args ...interface{}) {
	if s.afterResetCrash {
		s.r.Finding(class, "C08:resetsize-not-persistent", "crash after ResetSize + re-append before the next sync: the reopened tree mixes rolled-back entries with overwritten payload/digest bytes: "+format, args...)
		s.r.EndRun()
	}
	s.r.Violation(class, "", format, args...)
}

func mutateProof(r *simcore.Run, p [][32]byte) ([][32]byte, string) {
	q := append([][32]byte(nil), p...)
	switch k := r.Intn(5); {
	case k == 0 && len(q) > 0:
		i := r.Intn(len(q))
		return append(q[:i], q[i+1:]...), "dropped term"
	case k == 1:
		var x [32]byte
		x[0] = byte(r.Intn(256))
		i := r.Intn(len(q) + 1)
		q = append(q[:i], append([][32]byte{x}, q[i:]...)...)
		return q, "extra term"
	case k == 2 && len(q) > 0:
		i := r.Intn(len(q))
		q[i][r.Intn(32)] ^= 1 << uint(r.Intn(8))
		return q, "flipped bit"
	case k == 3 && len(q) > 1:
		i := r.Intn(len(q) - 1)
		if q[i] == q[i+1] {
			return nil, ""
		}
		q[i], q[i+1] = q[i+1], q[i]
		return q, "swapped terms"
	case k == 4 && len(q) > 0:
		i := r.Intn(len(q))
		q = append(q[:i+1], q[i:]...)
		return q, "duplicated term"
	}
	return nil, ""
}

// tamperInclusion: an altered proof or altered claim must be rejected unless
// the reference says the altered claim is itself true.
func (s *c08State) tamperInclusion(what string, ip [][32]byte, i, j int, leaves [][32]byte, roots [][32]byte) {
	r := s.r
	n := len(leaves)
	if q, how := mutateProof(r, ip); q != nil {
		if ahtree.VerifyInclusion(q, uint64(i), uint64(j), leaves[i-1], roots[j]) {
			r.Violation("verifier-soundness", "", "%s: VerifyInclusion accepted a proof with a %s for (i=%d,j=%d)", what, how, i, j)
		}
	}
	// shifted positions / sizes / swapped roots / wrong leaf
	i2, j2 := i, j
	leaf, root := leaves[i-1], roots[j]
	switch r.Intn(5) {
	case 0:
		i2 = 1 + r.Intn(n)
	case 1:
		j2 = 1 + r.Intn(n)
	case 2:
		leaf = leaves[r.Intn(n)]
	case 3:
		root = roots[1+r.Intn(n)]
	default:
		i2, j2 = j, i
	}
	accepted := false
	pv, _ := r.Catch(func() { accepted = ahtree.VerifyInclusion(ip, uint64(i2), uint64(j2), leaf, root) })
	if pv != nil {
		r.Violation("verifier-panic", "", "%s: VerifyInclusion panicked on (i=%d,j=%d): %v", what, i2, j2, pv)
	}
	if accepted {
		// ground truth: does the audit-path shape of the claimed position and
		// size, applied to these terms, yield the given root?
		if !refVerifyInclusion(ip, uint64(i2), uint64(j2), leaf, root) {
			if i2 >= 1 && i2 <= j2 && ahtree.EvalInclusion(ip, uint64(i2), uint64(j2), leaf) == root {
				// the verifier's own evaluation reproduces the root through a path
				// whose shape does not fit the claimed position and size
				r.Finding("verifier-soundness", "C08:verifyinclusion-path-shape", "%s: ahtree.VerifyInclusion accepted the proof of (i=%d,j=%d) for the claim (i=%d,j=%d); the reference verifier rejects it because the number of terms does not fit the claimed position and size", what, i, j, i2, j2)
				return
			}
			r.Violation("verifier-soundness", "", "%s: VerifyInclusion accepted the proof of (i=%d,j=%d) for the claim (i=%d,j=%d), which the reference verifier rejects", what, i, j, i2, j2)
		}
		_ = n
	}
}

func (s *c08State) tamperConsistency(what string, cp [][32]byte, i, j int, roots [][32]byte) {
	r := s.r
	n := len(roots) - 1
	// (for i == j the honest proof is the frontier of the tree and is evaluated against both roots too)
	if q, how := mutateProof(r, cp); q != nil && (i < j || len(cp) > 0) && !sameTerms(q, cp) {
		acc := false
		pv, _ := r.Catch(func() { acc = ahtree.VerifyConsistency(q, uint64(i), uint64(j), roots[i], roots[j]) })
		if pv != nil {
			r.Violation("verifier-panic", "", "%s: VerifyConsistency panicked on an altered proof (%s) for (i=%d,j=%d): %v", what, how, i, j, pv)
		}
		if acc {
			r.Violation("verifier-soundness", "", "%s: VerifyConsistency accepted a proof with a %s for (i=%d,j=%d)", what, how, i, j)
		}
	}
	i2, j2 := i, j
	ri, rj := roots[i], roots[j]
	switch r.Intn(3) {
	case 0:
		ri, rj = rj, ri
	case 1:
		ri = roots[1+r.Intn(n)]
	default:
		rj = roots[1+r.Intn(n)]
	}
	acc := false
	pv, _ := r.Catch(func() { acc = ahtree.VerifyConsistency(cp, uint64(i2), uint64(j2), ri, rj) })
	if pv != nil {
		r.Violation("verifier-panic", "", "%s: VerifyConsistency panicked on (i=%d,j=%d): %v", what, i2, j2, pv)
	}
	if acc {
		truth := i2 >= 1 && i2 <= j2 && j2 <= n && ri == roots[i2] && rj == roots[j2]
		if !truth {
			r.Violation("verifier-soundness", "", "%s: VerifyConsistency accepted the proof of (i=%d,j=%d) for the claim (i=%d,j=%d) whose roots are not those of the reference tree", what, i, j, i2, j2)
		}
	}
}

// c08HTree checks the per-transaction entry tree for a few widths.
func (s *c08State) c08HTree() {
	r := s.r
	for rep := 0; rep < 2; rep++ {
		w := 1 + r.Intn(33)
		maxW := w + r.Intn(3)
		ht, err := htree.New(maxW)
		if err != nil {
			r.Violation("htree", "", "htree.New(%d) failed: %v", maxW, err)
		}
		digests := make([][32]byte, w)
		leaves := make([][32]byte, w)
		for i := range digests {
			digests[i] = sha256.Sum256([]byte(fmt.Sprintf("d-%d-%d-%d", s.seq, rep, i)))
			leaves[i] = refLeaf(digests[i][:])
		}
		if err := ht.BuildWith(digests); err != nil {
			r.Violation("htree", "", "BuildWith(%d of %d) failed: %v", w, maxW, err)
		}
		want := refMTH(leaves)
		if ht.Root() != want {
			r.Violation("htree-root", "", "htree root for width %d is %x, reference is %x", w, ht.Root(), want[:6])
		}
		for i := 0; i < w; i++ {
			p, err := ht.InclusionProof(i)
			if err != nil {
				r.Violation("htree-proof", "", "InclusionProof(%d) width %d failed: %v", i, w, err)
			}
			if !htree.VerifyInclusion(p, digests[i], want) {
				r.Violation("htree-proof", "", "htree inclusion proof of leaf %d (width %d) does not verify", i, w)
			}
			if !refVerifyInclusion(p.Terms, uint64(i+1), uint64(w), leaves[i], want) {
				r.Violation("htree-proof", "", "htree inclusion proof of leaf %d (width %d) is not the reference audit path", i, w)
			}
			// altered claims
			q := *p
			q.Terms = append([][32]byte(nil), p.Terms...)
			how := ""
			switch r.Intn(5) {
			case 0:
				q.Leaf = r.Intn(w + 2)
				how = "shifted leaf index"
			case 1:
				q.Width = 1 + r.Intn(w+2)
				how = "shifted width"
			case 2:
				if t, h := mutateProof(r, p.Terms); t != nil {
					q.Terms, how = t, h
				}
			case 3:
				q.Leaf, q.Width = -1, w
				how = "negative leaf"
			}
			if how == "" {
				continue
			}
			d := digests[i]
			acc := false
			pv, _ := r.Catch(func() { acc = htree.VerifyInclusion(&q, d, want) })
			if pv != nil {
				r.Violation("verifier-panic", "", "htree.VerifyInclusion panicked on an altered proof (%s): %v", how, pv)
			}
			same := q.Leaf == p.Leaf && q.Width == p.Width && len(q.Terms) == len(p.Terms)
			if same {
				for x := range q.Terms {
					if q.Terms[x] != p.Terms[x] {
						same = false
					}
				}
			}
			if acc && !same {
				truth := q.Leaf >= 0 && q.Leaf < q.Width && refVerifyInclusion(q.Terms, uint64(q.Leaf+1), uint64(q.Width), leaves[i], want)
				if !truth {
					r.Violation("verifier-soundness", "", "htree.VerifyInclusion accepted a proof of leaf %d width %d altered by %s (claims leaf %d width %d)", i, w, how, q.Leaf, q.Width)
				}
			}
		}
	}
}

func sameTerms(a, b [][32]byte) bool {
	if len(a) != len(b) {
		return false
	}
	for i := range a {
		if a[i] != b[i] {
			return false
		}
	}
	return true
}
