package checks

import (
	"bytes"
	"context"
	"crypto/sha256"
	"errors"
	"fmt"
	"os"
	"sort"
	"strings"
	"sync"
	"time"

	"github.com/codenotary/immudb/embedded/logger"
	"github.com/codenotary/immudb/embedded/store"

	"verifsim/simcore"
)

// Shared harness for the checks that drive embedded/store (C02, C03, C04, C05,
// C14, ...): configuration swarm, the ledger of acknowledged commits, the
// key-value model derived from it and the history / index oracles.

type stCfg struct {
	Synced         bool `json:"synced"`
	Embedded       bool `json:"embedded_values"`
	Prealloc       bool `json:"prealloc"`
	HdrVersion     int  `json:"header_version"`
	IOConc         int  `json:"max_io_concurrency"`
	FileSize       int  `json:"file_size"`
	MaxActive      int  `json:"max_active_tx"`
	TxCache        int  `json:"tx_log_cache"`
	VCache         int  `json:"vlog_cache"`
	WBuf           int  `json:"write_buffer"`
	SyncFreqMs     int  `json:"sync_frequency_ms"`
	Comp           int  `json:"compression"`
	AhtSyncThld    int  `json:"aht_sync_thld"`
	AhtWBuf        int  `json:"aht_write_buffer"`
	IdxCache       int  `json:"index_cache"`
	IdxFlushThld   int  `json:"index_flush_thld"`
	IdxSyncThld    int  `json:"index_sync_thld"`
	IdxFlushBuf    int  `json:"index_flush_buffer"`
	IdxNodeSize    int  `json:"index_max_node_size"`
	IdxBulk        int  `json:"index_max_bulk"`
	IdxAdaptive    bool `json:"index_adaptive_bulk"`
	IdxBulkPrepMs  int  `json:"index_bulk_prep_ms"`
	IdxCleanupPct  int  `json:"index_cleanup_pct"`
	IdxMaxBuffered int  `json:"index_max_buffered"`
	IdxCompactThld int  `json:"index_compaction_thld"`
	MaxOpenFiles   int  `json:"max_opened_files"`
	MaxConc        int  `json:"max_concurrency"`
}

func genStCfg(r *simcore.Run, forceSynced bool) stCfg {
	c := stCfg{}
	c.Synced = forceSynced || r.Pct(60)
	c.Embedded = r.Pct(25)
	c.HdrVersion = r.Pick(1, 1, 0)
	c.IOConc = 1
	if !c.Embedded {
		c.IOConc = r.Pick(1, 1, 2, 3)
	}
	c.FileSize = r.Pick(1<<20, 4096, 1024, 512, 256)
	c.Prealloc = r.Pct(8) && c.FileSize <= 4096
	c.MaxActive = r.Pick(1000, 16, 6, 3)
	c.TxCache = r.Pick(1000, 4, 1)
	c.VCache = r.Pick(0, 0, 2, 10)
	c.WBuf = r.Pick(1<<16, 1<<12, 256)
	c.SyncFreqMs = r.Pick(20, 1, 100)
	c.Comp = 0
	if !c.Embedded && r.Pct(10) {
		c.Comp = 1 + r.Intn(4)
	}
	c.AhtSyncThld = r.Pick(100000, 8, 2, 1)
	c.AhtWBuf = r.Pick(1<<16, 256)
	c.IdxCache = r.Pick(100000, 16, 2, 1)
	c.IdxFlushThld = r.Pick(100000, 16, 4, 1)
	c.IdxSyncThld = r.Pick(1000000, 64, 8, 1)
	if c.IdxSyncThld < c.IdxFlushThld {
		c.IdxSyncThld = c.IdxFlushThld
	}
	c.IdxFlushBuf = r.Pick(4096, 512)
	c.IdxNodeSize = r.Pick(4096, 1024, 512)
	c.IdxBulk = r.Pick(1, 1, 2, 4, 8)
	c.IdxAdaptive = c.IdxBulk > 1 && r.Pct(30)
	c.IdxBulkPrepMs = r.Pick(20, 1, 200)
	c.IdxCleanupPct = r.Pick(0, 0, 50, 100)
	c.IdxMaxBuffered = r.Pick(1<<22, 1<<22, 2048, 600)
	c.IdxCompactThld = r.Pick(2, 1)
	c.MaxOpenFiles = r.Pick(10, 2, 1)
	c.MaxConc = r.Pick(30, 30, 4)
	return c
}

func (c stCfg) sig(r *simcore.Run) {
	r.Sig("stcfg", c.Synced, c.Embedded, c.Prealloc, c.HdrVersion, c.IOConc, c.FileSize, c.MaxActive, c.TxCache,
		c.AhtSyncThld, c.IdxCache, c.IdxFlushThld, c.IdxSyncThld, c.IdxNodeSize, c.IdxBulk, c.IdxMaxBuffered)
}

func (c stCfg) options() *store.Options {
	idx := store.DefaultIndexOptions().
		WithCacheSize(c.IdxCache).
		WithFlushThld(c.IdxFlushThld).
		WithSyncThld(c.IdxSyncThld).
		WithFlushBufferSize(c.IdxFlushBuf).
		WithMaxNodeSize(c.IdxNodeSize).
		WithMaxBulkSize(c.IdxBulk).
		WithAdaptiveBulkSize(c.IdxAdaptive).
		WithBulkPreparationTimeout(time.Duration(c.IdxBulkPrepMs) * time.Millisecond).
		WithCleanupPercentage(float32(c.IdxCleanupPct)).
		WithMaxBufferedDataSize(c.IdxMaxBuffered).
		WithCompactionThld(c.IdxCompactThld).
		WithNodesLogMaxOpenedFiles(c.MaxOpenFiles).
		WithHistoryLogMaxOpenedFiles(c.MaxOpenFiles).
		WithCommitLogMaxOpenedFiles(c.MaxOpenFiles)
	aht := store.DefaultAHTOptions().WithSyncThld(c.AhtSyncThld).WithWriteBufferSize(c.AhtWBuf)
	return store.DefaultOptions().
		WithSynced(c.Synced).
		WithEmbeddedValues(c.Embedded).
		WithPreallocFiles(c.Prealloc).
		WithWriteTxHeaderVersion(c.HdrVersion).
		WithMaxIOConcurrency(c.IOConc).
		WithFileSize(c.FileSize).
		WithMaxActiveTransactions(c.MaxActive).
		WithTxLogCacheSize(c.TxCache).
		WithVLogCacheSize(c.VCache).
		WithWriteBufferSize(c.WBuf).
		WithSyncFrequency(time.Duration(c.SyncFreqMs) * time.Millisecond).
		WithCompressionFormat(c.Comp).
		WithMaxConcurrency(c.MaxConc).
		WithVLogMaxOpenedFiles(c.MaxOpenFiles).
		WithTxLogMaxOpenedFiles(c.MaxOpenFiles).
		WithCommitLogMaxOpenedFiles(c.MaxOpenFiles).
		WithMaxKeyLen(64).
		WithMaxValueLen(1024).
		WithMaxTxEntries(16).
		WithIndexOptions(idx).
		WithAHTOptions(aht).
		WithLogger(logger.NewMemoryLogger())
}

// ---------------------------------------------------------------------------
// ledger of acknowledged commits

type ledEntry struct {
	Key          []byte
	Value        []byte
	MD           []byte // KVMetadata bytes (nil if none)
	Deleted      bool
	NonIndexable bool
	ExpiresAt    int64 // unix seconds, 0 = never
}

type ledTx struct {
	ID      uint64
	Hdr     store.TxHeader
	MDBytes []byte
	Alh     [32]byte
	Entries []ledEntry
	Export  []byte // first ExportTx result, must never change
}

type attempt struct {
	Entries []ledEntry
	Err     string
}

type storeEnv struct {
	r   *simcore.Run
	cfg stCfg
	dir string
	st  *store.ImmuStore

	mu       sync.Mutex
	led      map[uint64]*ledTx
	attempts []attempt
	maxAcked uint64
	valSeq   int
	// truncatedBefore: values of txs with id < this may be gone
	truncatedBefore uint64
	extraIndexes    int
	markAcks        bool
	// valueOptionalFrom: values of transactions with id >= this (recovered
	// although never acknowledged) may be unreadable, never different. 0 = none.
	valueOptionalFrom uint64
	optLo, optHi      uint64               // an additional range of such ids (from an earlier crash)
	crashDepth        int                  // number of crashes this store directory went through
	optMod            func(*store.Options) // extra store options of this instance
	lossyFirstCrash   bool                 // an earlier crash of this history lost or tore un-synced writes
	wideKeys          int                  // > 0: number of extra keys to draw from
	compactBias       bool                 // maintenance favours index compaction
	emptyValuePct     int                  // extra probability of empty values
	starvePct         int                  // probability that a committer is starved during its commit
	digestOnlyBefore  uint64               // replica of a truncated primary: entries of older txs carry digests only (length 0)
}

func (e *storeEnv) valueOptional(id uint64) bool {
	return (e.valueOptionalFrom != 0 && id >= e.valueOptionalFrom) || (e.optLo != 0 && id >= e.optLo && id <= e.optHi)
}

func newStoreEnv(r *simcore.Run, cfg stCfg, dir string) *storeEnv {
	return &storeEnv{r: r, cfg: cfg, dir: dir, led: map[uint64]*ledTx{}}
}

func (e *storeEnv) open() error {
	var st *store.ImmuStore
	var err error
	opts := e.cfg.options()
	if e.optMod != nil {
		e.optMod(opts)
	}
	if os.Getenv("VERIF_REPLAY") != "" && os.Getenv("VERIF_STORE_LOG") != "" {
		ml := logger.NewMemoryLoggerWithLevel(logger.LogDebug)
		opts.WithLogger(ml)
		e.r.Defer(func() {
			for _, l := range ml.GetLogs() {
				e.r.Logf("storelog: %s", l)
			}
		})
	}
	pv, stack := e.r.Catch(func() { st, err = store.Open(e.dir, opts) })
	if pv != nil {
		e.r.Violation("open-panic", "", "store.Open panicked: %v\n%s", pv, stack)
	}
	if err != nil {
		return err
	}
	e.st = st
	e.r.Defer(func() { st.Close() })
	return nil
}

func (e *storeEnv) uniqueValue(task string, maxLen int) []byte {
	e.mu.Lock()
	e.valSeq++
	n := e.valSeq
	e.mu.Unlock()
	v := []byte(fmt.Sprintf("%s:%d|", task, n))
	extra := 0
	if maxLen > len(v) {
		extra = e.r.Intn(maxLen - len(v) + 1)
	}
	for i := 0; i < extra; i++ {
		v = append(v, byte('a'+(n+i)%26))
	}
	return v
}

func entryFromSpec(key, value []byte, md *store.KVMetadata) ledEntry {
	le := ledEntry{Key: append([]byte(nil), key...), Value: append([]byte(nil), value...)}
	if md != nil {
		le.MD = md.Bytes()
		le.Deleted = md.Deleted()
		le.NonIndexable = md.NonIndexable()
		if md.IsExpirable() {
			t, _ := md.ExpirationTime()
			le.ExpiresAt = t.Unix()
		}
	}
	return le
}

// ack records an acknowledged commit in the ledger.
func (e *storeEnv) ack(hdr *store.TxHeader, entries []ledEntry) *ledTx {
	lt := &ledTx{ID: hdr.ID, Hdr: *hdr, Alh: hdr.Alh(), Entries: entries}
	if hdr.Metadata != nil {
		lt.MDBytes = hdr.Metadata.Bytes()
	}
	e.mu.Lock()
	if old, dup := e.led[hdr.ID]; dup {
		e.mu.Unlock()
		e.r.Violation("id-reassigned", "", "transaction id %d acknowledged twice (alh %x and %x)", hdr.ID, old.Alh[:6], lt.Alh[:6])
	}
	e.led[hdr.ID] = lt
	if hdr.ID > e.maxAcked {
		e.maxAcked = hdr.ID
	}
	e.mu.Unlock()
	if e.markAcks {
		e.r.Disk.Mark("ack", int64(hdr.ID))
	}
	return lt
}

func (e *storeEnv) failed(entries []ledEntry, err error) {
	e.mu.Lock()
	e.attempts = append(e.attempts, attempt{Entries: entries, Err: err.Error()})
	e.mu.Unlock()
}

func sameEntries(a []ledEntry, tx *store.Tx) bool {
	es := tx.Entries()
	if len(a) != len(es) {
		return false
	}
	for i := range a {
		if !bytes.Equal(a[i].Key, es[i].Key()) {
			return false
		}
		if sha256.Sum256(a[i].Value) != es[i].HVal() {
			return false
		}
	}
	return true
}

// verifyHistory is the C02 oracle: ids dense, every acknowledged transaction
// reads back exactly as acknowledged, the chain and the binary linking are
// correct, the reported state is the last committed transaction.
func (e *storeEnv) verifyHistory(what string, quiescent bool) uint64 {
	e.mu.Lock()
	maxAcked := e.maxAcked
	e.mu.Unlock()
	return e.verifyHistoryFrom(what, quiescent, maxAcked)
}

// verifyHistoryFrom: maxAcked is the highest id whose commit had been
// acknowledged at the instant the store state under test corresponds to.
func (e *storeEnv) verifyHistoryFrom(what string, quiescent bool, maxAcked uint64) uint64 {
	r := e.r
	st := e.st
	n, nAlh := st.CommittedAlh()
	if n < maxAcked {
		r.Violation("acked-missing", "", "%s: committed frontier is %d but transaction %d was acknowledged", what, n, maxAcked)
	}
	tx := store.NewTx(16, 64)
	alhs := make([][32]byte, 0, n)
	prevAlh := sha256.Sum256(nil) // Alh(0) is the hash of the empty string
	for id := uint64(1); id <= n; id++ {
		var err error
		pv, stack := r.Catch(func() { err = st.ReadTx(id, false, tx) })
		if pv != nil {
			r.Violation("read-panic", "", "%s: ReadTx(%d) panicked: %v\n%s", what, id, pv, stack)
		}
		if err != nil {
			r.Violation("read-tx", "", "%s: ReadTx(%d) of %d committed failed: %v", what, id, n, err)
		}
		hdr := tx.Header()
		if hdr.ID != id {
			r.Violation("dense-ids", "", "%s: ReadTx(%d) returned id %d", what, id, hdr.ID)
		}
		alh := hdr.Alh()
		if hdr.PrevAlh != prevAlh {
			r.Violation("chain", "", "%s: tx %d PrevAlh %x is not Alh(%d) %x", what, id, hdr.PrevAlh[:6], id-1, prevAlh[:6])
		}
		if hdr.BlTxID >= id {
			r.Violation("chain", "", "%s: tx %d has BlTxID %d", what, id, hdr.BlTxID)
		}
		var wantBl [32]byte
		if hdr.BlTxID > 0 {
			leaves := make([][32]byte, hdr.BlTxID)
			for i := range leaves {
				leaves[i] = refLeaf(alhs[i][:])
			}
			wantBl = refMTH(leaves)
		}
		if hdr.BlRoot != wantBl && e.crashDepth >= 2 {
			r.Finding("binary-linking", "C03:stale-aht-leaf-after-repeated-crash", "%s: tx %d BlRoot %x is not the reference Merkle root over Alh[1..%d] %x (the hash tree kept a leaf of a transaction that was lost in an earlier crash and whose id was assigned again)", what, id, hdr.BlRoot[:6], hdr.BlTxID, wantBl[:6])
			r.EndRun()
		}
		if hdr.BlRoot != wantBl {
			r.Violation("binary-linking", "", "%s: tx %d BlRoot %x is not the reference Merkle root over Alh[1..%d] %x", what, id, hdr.BlRoot[:6], hdr.BlTxID, wantBl[:6])
		}
		e.mu.Lock()
		lt := e.led[id]
		e.mu.Unlock()
		if lt != nil {
			e.compareTx(what, lt, tx)
		} else {
			// never acknowledged: must be one of the attempts that returned an error
			// (or whose acknowledgement was still in flight)
			if quiescent && !e.matchesAttempt(tx) {
				r.Violation("phantom-tx", "", "%s: committed tx %d (%d entries) was never acknowledged and matches no failed attempt", what, id, len(tx.Entries()))
			}
		}
		alhs = append(alhs, alh)
		prevAlh = alh
	}
	if n > 0 && nAlh != prevAlh {
		r.Violation("state", "", "%s: CommittedAlh reports (%d,%x) but Alh(%d) is %x", what, n, nAlh[:6], n, prevAlh[:6])
	}
	return n
}

func (e *storeEnv) matchesAttempt(tx *store.Tx) bool {
	e.mu.Lock()
	defer e.mu.Unlock()
	for _, a := range e.attempts {
		if sameEntries(a.Entries, tx) {
			return true
		}
	}
	return false
}

func (e *storeEnv) compareTx(what string, lt *ledTx, tx *store.Tx) {
	r := e.r
	hdr := tx.Header()
	var mdb []byte
	if hdr.Metadata != nil {
		mdb = hdr.Metadata.Bytes()
	}
	if hdr.ID != lt.Hdr.ID || hdr.Ts != lt.Hdr.Ts || hdr.BlTxID != lt.Hdr.BlTxID || hdr.BlRoot != lt.Hdr.BlRoot ||
		hdr.PrevAlh != lt.Hdr.PrevAlh || hdr.Version != lt.Hdr.Version || hdr.NEntries != lt.Hdr.NEntries ||
		hdr.Eh != lt.Hdr.Eh || !bytes.Equal(mdb, lt.MDBytes) {
		r.Violation("immutable-header", "", "%s: header of tx %d changed since it was acknowledged: now %+v, was %+v", what, lt.ID, *hdr, lt.Hdr)
	}
	if hdr.Alh() != lt.Alh {
		r.Violation("immutable-alh", "", "%s: Alh of tx %d changed since it was acknowledged", what, lt.ID)
	}
	es := tx.Entries()
	if len(es) != len(lt.Entries) {
		r.Violation("immutable-entries", "", "%s: tx %d has %d entries, acknowledged with %d", what, lt.ID, len(es), len(lt.Entries))
	}
	for i, le := range lt.Entries {
		te := es[i]
		var md []byte
		if te.Metadata() != nil {
			md = te.Metadata().Bytes()
		}
		vlenOK := te.VLen() == len(le.Value) || (lt.ID < e.digestOnlyBefore && te.VLen() == 0)
		if !bytes.Equal(te.Key(), le.Key) || !bytes.Equal(md, le.MD) || !vlenOK || te.HVal() != sha256.Sum256(le.Value) {
			r.Violation("immutable-entries", "", "%s: entry %d of tx %d changed: key %q md %x vlen %d, acknowledged key %q md %x vlen %d", what, i, lt.ID, te.Key(), md, te.VLen(), le.Key, le.MD, len(le.Value))
		}
		// the single-entry read of the same (transaction, key)
		{
			var se *store.TxEntry
			var sh *store.TxHeader
			var serr error
			skip := r.Bool()
			pv, stack := r.Catch(func() { se, sh, serr = e.st.ReadTxEntry(lt.ID, le.Key, skip) })
			if pv != nil {
				r.Violation("read-panic", "", "%s: ReadTxEntry(%d, %q) panicked: %v\n%s", what, lt.ID, le.Key, pv, stack)
			}
			if serr != nil {
				r.Violation("read-tx-entry", "", "%s: ReadTxEntry(%d, %q) failed: %v", what, lt.ID, le.Key, serr)
			}
			var smd []byte
			if se.Metadata() != nil {
				smd = se.Metadata().Bytes()
			}
			if sh.ID != lt.ID || sh.PrevAlh != lt.Hdr.PrevAlh || sh.Ts != lt.Hdr.Ts || (!skip && sh.Alh() != lt.Alh) || !bytes.Equal(se.Key(), le.Key) || !bytes.Equal(smd, le.MD) || se.VLen() != te.VLen() || se.HVal() != te.HVal() || se.VOff() != te.VOff() {
				r.Violation("immutable-entries", "read-tx-entry", "%s: ReadTxEntry(%d, %q) returned key %q md %x vlen %d voff %d of tx %d; the transaction holds key %q md %x vlen %d voff %d (integrity check skipped, so the entries hash of the header is not rebuilt: %v; accumulated hash equal: %v, value hash equal: %v)", what, lt.ID, le.Key, se.Key(), smd, se.VLen(), se.VOff(), sh.ID, le.Key, le.MD, te.VLen(), te.VOff(), skip, sh.Alh() == lt.Alh, se.HVal() == te.HVal())
			}
		}
		if lt.ID < e.truncatedBefore {
			continue
		}
		var val []byte
		var err error
		pv, stack := r.Catch(func() { val, err = e.st.ReadValue(te) })
		if pv != nil {
			r.Violation("read-panic", "", "%s: ReadValue(tx %d entry %d) panicked: %v\n%s", what, lt.ID, i, pv, stack)
		}
		if err != nil && le.ExpiresAt != 0 && !time.Now().Before(time.Unix(le.ExpiresAt, 0)) && errors.Is(err, store.ErrExpiredEntry) {
			continue // values of expired entries are withheld by design
		}
		if err != nil && e.valueOptional(lt.ID) {
			r.Probe("unacked-tx-recovered-without-value")
			continue
		}
		if err != nil {
			r.Violation("read-value", "", "%s: value of entry %d (%q) of tx %d is unreadable: %v", what, i, le.Key, lt.ID, err)
		}
		if !bytes.Equal(val, le.Value) {
			r.Violation("immutable-value", "", "%s: value of entry %d (%q) of tx %d changed: %q, acknowledged %q", what, i, le.Key, lt.ID, trunc(val), trunc(le.Value))
		}
	}
}

func trunc(b []byte) string {
	if len(b) > 40 {
		return string(b[:40]) + "..."
	}
	return string(b)
}

// ---------------------------------------------------------------------------
// key-value model derived from the recovered history

type kvVersion struct {
	Tx      uint64
	Value   []byte
	MD      []byte
	Deleted bool
	Expires int64
	TxMD    []byte
}

// kvModelFromStore builds key -> versions from the committed log itself (ids
// 1..n), reading through ReadTx/ReadValue which were just validated against
// the ledger by verifyHistory. Non-indexable entries are skipped.
func (e *storeEnv) kvModel(n uint64, prefix []byte) (map[string][]kvVersion, []string) {
	m := map[string][]kvVersion{}
	tx := store.NewTx(16, 64)
	for id := uint64(1); id <= n; id++ {
		if err := e.st.ReadTx(id, false, tx); err != nil {
			e.r.Violation("read-tx", "", "ReadTx(%d) failed while building the model: %v", id, err)
		}
		var txmd []byte
		if tx.Header().Metadata != nil {
			txmd = tx.Header().Metadata.Bytes()
		}
		e.mu.Lock()
		lt := e.led[id]
		e.mu.Unlock()
		for i, te := range tx.Entries() {
			md := te.Metadata()
			if md != nil && md.NonIndexable() {
				continue
			}
			if !bytes.HasPrefix(te.Key(), prefix) {
				continue
			}
			v := kvVersion{Tx: id, TxMD: txmd}
			if md != nil {
				v.MD = md.Bytes()
				v.Deleted = md.Deleted()
				if md.IsExpirable() {
					t, _ := md.ExpirationTime()
					v.Expires = t.Unix()
				}
			}
			if lt != nil {
				v.Value = lt.Entries[i].Value
			} else if id >= e.truncatedBefore {
				val, err := e.st.ReadValue(te)
				if err != nil && !e.valueOptional(id) && !(v.Expires != 0 && errors.Is(err, store.ErrExpiredEntry)) {
					e.r.Violation("read-value", "", "value of tx %d entry %d unreadable: %v", id, i, err)
				}
				v.Value = val
			}
			k := string(te.Key())
			m[k] = append(m[k], v)
		}
	}
	keys := make([]string, 0, len(m))
	for k := range m {
		keys = append(keys, k)
	}
	sort.Strings(keys)
	return m, keys
}

// verifyIndex is the C04 oracle for the default index: after indexing caught
// up with n, lookups, histories and scans equal the model.
func (e *storeEnv) verifyIndex(what string, n uint64) {
	r := e.r
	st := e.st
	ctx := context.Background()
	wctx, cancel := context.WithTimeout(ctx, 2*time.Minute) // simulated time
	werr := st.WaitForIndexingUpto(wctx, n)
	cancel()
	if werr != nil {
		e.idxViol("index-wait", "%s: indexing did not catch up with tx %d within 2 simulated minutes: %v", what, n, werr)
	}
	model, keys := e.kvModel(n, nil)
	now := time.Now()
	for _, k := range keys {
		vers := model[k]
		last := vers[len(vers)-1]
		ref, err := st.Get(ctx, []byte(k))
		live := !last.Deleted && !(last.Expires != 0 && !now.Before(time.Unix(last.Expires, 0)))
		switch {
		case live && err != nil:
			e.idxViol("index-get", "%s: Get(%q) failed (%v) but its latest version (tx %d of %d versions) is live", what, k, err, last.Tx, len(vers))
		case !live && err == nil:
			e.idxViol("index-get", "%s: Get(%q) returned tx %d but its latest version (tx %d) is deleted/expired", what, k, ref.Tx(), last.Tx)
		case !live:
			if last.Deleted && !errors.Is(err, store.ErrKeyNotFound) {
				e.idxViol("index-get", "%s: Get(%q) of a deleted key returned %v", what, k, err)
			}
			if !last.Deleted && !errors.Is(err, store.ErrExpiredEntry) && !errors.Is(err, store.ErrKeyNotFound) {
				e.idxViol("index-get", "%s: Get(%q) of an expired key returned %v", what, k, err)
			}
		default:
			e.compareRef(what+": Get", k, ref, last, uint64(len(vers)))
		}
		// history, ascending and descending
		refs, hc, err := st.History([]byte(k), 0, false, len(vers)+3)
		if err != nil {
			e.idxViol("index-history", "%s: History(%q) failed: %v", what, k, err)
		}
		if hc != uint64(len(vers)) || len(refs) != len(vers) {
			e.idxViol("index-history", "%s: History(%q) lists %d versions (count %d), the log holds %d", what, k, len(refs), hc, len(vers))
		}
		for i, rf := range refs {
			e.compareRef(what+": History", k, rf, vers[i], uint64(i+1))
		}
		if len(vers) > 1 {
			off := uint64(r.Intn(len(vers)))
			lim := 1 + r.Intn(len(vers))
			refs, _, err := st.History([]byte(k), off, true, lim)
			if err != nil {
				e.idxViol("index-history", "%s: History(%q, off=%d, desc, limit=%d) failed: %v", what, k, off, lim, err)
			}
			wantN := len(vers) - int(off)
			if wantN > lim {
				wantN = lim
			}
			if len(refs) != wantN {
				e.idxViol("index-history", "%s: History(%q, off=%d, desc, limit=%d) returned %d versions, expected %d of %d", what, k, off, lim, len(refs), wantN, len(vers))
			}
			for i, rf := range refs {
				idx := len(vers) - 1 - int(off) - i
				e.compareRef(what+": History desc", k, rf, vers[idx], uint64(idx+1))
			}
		}
		// lookup bounded by transaction range
		if len(vers) > 0 {
			i := r.Intn(len(vers))
			upto := vers[i].Tx
			ref, err := st.GetBetween(ctx, []byte(k), 1, upto)
			if err != nil {
				e.idxViol("index-getbetween", "%s: GetBetween(%q,1,%d) failed: %v", what, k, upto, err)
			}
			e.compareRef(what+": GetBetween", k, ref, vers[i], uint64(i+1))
		}
	}
	// full and prefix scans, ascending and descending, live keys only (one prefix is
	// itself a key, another one a proper prefix of several keys)
	type scanCase struct {
		desc   bool
		prefix string
		off    int // live keys to skip first
	}
	var scans []scanCase
	for _, desc := range []bool{false, true} {
		scans = append(scans, scanCase{desc, "", 0})
		scans = append(scans, scanCase{desc, "", 1 + e.r.Intn(4)})
	}
	for _, p := range []string{"ka", "ka/y", "k"} {
		scans = append(scans, scanCase{e.r.Bool(), p, e.r.Pick(0, 0, 1, 2)})
	}
	for _, sc := range scans {
		desc := sc.desc
		snap, err := st.SnapshotMustIncludeTxID(ctx, nil, n)
		if err != nil {
			e.idxViol("index-snapshot", "%s: SnapshotMustIncludeTxID(%d) failed: %v", what, n, err)
		}
		rd, err := snap.NewKeyReader(store.KeyReaderSpec{DescOrder: desc, Prefix: []byte(sc.prefix), Offset: uint64(sc.off), Filters: []store.FilterFn{store.IgnoreDeleted, store.IgnoreExpired}})
		if err != nil {
			snap.Close()
			e.idxViol("index-scan", "%s: NewKeyReader failed: %v", what, err)
		}
		var got []string
		for {
			k, ref, err := rd.Read(ctx)
			if errors.Is(err, store.ErrNoMoreEntries) {
				break
			}
			if err != nil {
				rd.Close()
				snap.Close()
				e.idxViol("index-scan", "%s: scan failed after %d keys: %v", what, len(got), err)
			}
			vers := model[string(k)]
			if len(vers) == 0 {
				rd.Close()
				snap.Close()
				e.idxViol("index-scan", "%s: scan returned key %q which the log does not contain", what, k)
			}
			e.compareRef(what+": scan", string(k), ref, vers[len(vers)-1], uint64(len(vers)))
			got = append(got, string(k))
		}
		rd.Close()
		snap.Close()
		var want []string
		for _, k := range keys {
			vers := model[k]
			last := vers[len(vers)-1]
			if last.Deleted || (last.Expires != 0 && !now.Before(time.Unix(last.Expires, 0))) {
				continue
			}
			if !strings.HasPrefix(k, sc.prefix) {
				continue
			}
			want = append(want, k)
		}
		if desc {
			sort.Sort(sort.Reverse(sort.StringSlice(want)))
		}
		if sc.off >= len(want) {
			want = nil
		} else {
			want = want[sc.off:]
		}
		if fmt.Sprint(got) != fmt.Sprint(want) {
			e.idxViol("index-scan", "%s: scan (desc=%v, prefix %q, offset %d) returned keys %q, the live keys of the log after the offset are %q", what, desc, sc.prefix, sc.off, got, want)
		}
	}
}

// idxViol reports a disagreement between the index and the committed log. If
// two indexing goroutines of the same index were alive at the same time in
// this run (the structural precondition of the known compaction-restart
// defect), it is attributed to that finding, otherwise it is a violation.
func (e *storeEnv) idxViol(class, format string, args ...interface{}) {
	if e.r.Sched != nil && e.r.Sched.MaxSameName("indexer") > 1 {
		e.r.Finding(class, "C04:indexer-overlap-after-compaction", "two indexing goroutines ran concurrently on one index after CompactIndexes restarted it; then: "+format, args...)
		e.r.EndRun()
	}
	if e.crashDepth >= 2 && e.lossyFirstCrash {
		// the index (tbtree) never truncates its logs: entries of the timeline lost in
		// the first crash that lie beyond the recovered extent stay in the files, and a
		// second crash can resurrect them (recorded for C10, same root cause here)
		e.r.Finding(class, "C03:stale-index-tail-after-repeated-crash", "second crash after a power loss that had dropped index writes; then: "+format+"\n  committed log: "+e.dumpLog(), args...)
		e.r.EndRun()
	}
	e.r.Violation(class, "", format+"\n  committed log: "+e.dumpLog(), args...)
}

// dumpLog renders the committed log compactly (for violation messages).
func (e *storeEnv) dumpLog() string {
	n, _ := e.st.CommittedAlh()
	tx := store.NewTx(16, 64)
	out := ""
	for id := uint64(1); id <= n && id <= 60; id++ {
		if err := e.st.ReadTx(id, false, tx); err != nil {
			out += fmt.Sprintf(" %d:<%v>", id, err)
			continue
		}
		out += fmt.Sprintf(" %d:[", id)
		for i, te := range tx.Entries() {
			if i > 0 {
				out += " "
			}
			out += string(te.Key())
			if md := te.Metadata(); md != nil {
				if md.Deleted() {
					out += "(del)"
				}
				if md.NonIndexable() {
					out += "(noidx)"
				}
				if md.IsExpirable() {
					out += "(exp)"
				}
			}
		}
		out += "]"
	}
	return out
}

func (e *storeEnv) nIndexes() int { return 1 + e.extraIndexes }

func (e *storeEnv) compareRef(what, k string, ref store.ValueRef, v kvVersion, rev uint64) {
	r := e.r
	if ref.Tx() != v.Tx {
		e.idxViol("index-version", "%s(%q): returned version of tx %d, expected tx %d (revision %d)", what, k, ref.Tx(), v.Tx, rev)
	}
	if ref.HC() != rev {
		e.idxViol("index-revision", "%s(%q): revision %d, expected %d (tx %d)", what, k, ref.HC(), rev, v.Tx)
	}
	var md []byte
	if ref.KVMetadata() != nil {
		md = ref.KVMetadata().Bytes()
	}
	if !bytes.Equal(md, v.MD) {
		e.idxViol("index-metadata", "%s(%q): metadata %x, expected %x (tx %d)", what, k, md, v.MD, v.Tx)
	}
	var txmd []byte
	if ref.TxMetadata() != nil {
		txmd = ref.TxMetadata().Bytes()
	}
	if !bytes.Equal(txmd, v.TxMD) {
		e.idxViol("index-metadata", "%s(%q): tx metadata %x, expected %x (tx %d)", what, k, txmd, v.TxMD, v.Tx)
	}
	if v.Tx < e.truncatedBefore {
		return
	}
	var val []byte
	var err error
	pv, stack := r.Catch(func() { val, err = ref.Resolve() })
	if pv != nil {
		r.Violation("read-panic", "", "%s(%q): Resolve panicked: %v\n%s", what, k, pv, stack)
	}
	if err != nil && v.Expires != 0 && !time.Now().Before(time.Unix(v.Expires, 0)) && errors.Is(err, store.ErrExpiredEntry) {
		return // values of expired entries are withheld by design
	}
	if err != nil && e.valueOptional(v.Tx) {
		return
	}
	if err != nil {
		e.idxViol("index-value", "%s(%q): value of tx %d unreadable: %v", what, k, v.Tx, err)
	}
	if !bytes.Equal(val, v.Value) {
		e.idxViol("index-value", "%s(%q): value %q, the log holds %q (tx %d)", what, k, trunc(val), trunc(v.Value), v.Tx)
	}
}

// verifyProofs checks that every acknowledged state can be proven consistent
// with the current one using the real verifier (sampled when many).
func (e *storeEnv) verifyProofs(what string, n uint64, states []uint64) {
	r := e.r
	if n == 0 {
		return
	}
	tgt, err := e.st.ReadTxHeader(n, false, false)
	if err != nil {
		r.Violation("read-tx", "", "%s: ReadTxHeader(%d) failed: %v", what, n, err)
	}
	for _, id := range states {
		if id == 0 || id > n {
			continue
		}
		src, err := e.st.ReadTxHeader(id, false, false)
		if err != nil {
			r.Violation("read-tx", "", "%s: ReadTxHeader(%d) failed: %v", what, id, err)
		}
		e.mu.Lock()
		lt := e.led[id]
		e.mu.Unlock()
		srcAlh := src.Alh()
		if lt != nil {
			srcAlh = lt.Alh // the state the client trusted
		}
		var proof *store.DualProof
		pv, stack := r.Catch(func() { proof, err = e.st.DualProof(src, tgt) })
		if pv != nil {
			r.Violation("proof-panic", "", "%s: DualProof(%d,%d) panicked: %v\n%s", what, id, n, pv, stack)
		}
		if err != nil && errors.Is(err, store.ErrMaxConcurrencyLimitExceeded) {
			continue // transient: all tx holders in use by concurrent tasks
		}
		if err != nil {
			r.Violation("proof", "", "%s: DualProof(%d,%d) failed: %v", what, id, n, err)
		}
		if !store.VerifyDualProof(proof, id, n, srcAlh, tgt.Alh()) && e.crashDepth >= 2 {
			r.Finding("proof-verify", "C03:stale-aht-leaf-after-repeated-crash", "%s: a client holding the acknowledged state of tx %d cannot verify consistency with the state of tx %d (stale hash-tree leaf after repeated crashes)", what, id, n)
			r.EndRun()
		}
		if !store.VerifyDualProof(proof, id, n, srcAlh, tgt.Alh()) {
			r.Violation("proof-verify", "", "%s: a client holding the acknowledged state of tx %d cannot verify consistency with the state of tx %d", what, id, n)
		}
	}
}

// ---------------------------------------------------------------------------
// workload pieces

var stKeys = []string{"k0", "k1", "k2", "k3", "k4", "k5", "ka", "ka/x", "ka/y", "ka/yy", "kb"}

// pickKey draws a key: from the small shared set, or (in runs that opted for a
// wide key space, to grow multi-level index trees) from a few dozen keys.
func (e *storeEnv) pickKey() string {
	if e.wideKeys > 0 && e.r.Pct(70) {
		return fmt.Sprintf("w%03d/%s", e.r.Intn(e.wideKeys), "padpadpadpadpadpad"[:e.r.Intn(18)])
	}
	return stKeys[e.r.Intn(len(stKeys))]
}

type txPlan struct {
	entries []ledEntry
	specs   []func(tx *store.OngoingTx) error
}

// genWrites adds 1..maxEntries writes on distinct keys to a transaction.
func (e *storeEnv) genWrites(task string, tx *store.OngoingTx, maxEntries int, maxVal int) ([]ledEntry, error) {
	r := e.r
	n := 1 + r.Intn(maxEntries)
	used := map[string]bool{}
	var out []ledEntry
	for i := 0; i < n; i++ {
		k := e.pickKey()
		if used[k] {
			continue
		}
		used[k] = true
		var md *store.KVMetadata
		var val []byte
		w := r.Intn(20)
		if e.emptyValuePct > 0 && r.Pct(e.emptyValuePct) {
			w = 3
		}
		if e.cfg.HdrVersion == 0 && w <= 2 {
			w = 10 // entry metadata needs tx header version 1
		}
		switch {
		case w == 0:
			md = store.NewKVMetadata()
			md.AsDeleted(true)
		case w == 1:
			md = store.NewKVMetadata()
			md.ExpiresAt(time.Now().Add(time.Duration(1+r.Intn(5)) * time.Second))
			val = e.uniqueValue(task, maxVal)
		case w == 2:
			md = store.NewKVMetadata()
			md.AsNonIndexable(true)
			val = e.uniqueValue(task, maxVal)
		case w == 3:
			val = nil // empty value
		default:
			val = e.uniqueValue(task, maxVal)
		}
		if err := tx.Set([]byte(k), md, val); err != nil {
			return out, err
		}
		out = append(out, entryFromSpec([]byte(k), val, md))
	}
	return out, nil
}

func osStat(p string) (os.FileInfo, error) { return os.Stat(p) }
