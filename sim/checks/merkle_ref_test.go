package checks

import "crypto/sha256"

// Reference Merkle construction (RFC 6962 style, immudb prefixes): written
// from the definition, shares no code with embedded/ahtree or embedded/htree.
//
//	MTH({d0})        = H(0x00 || d0)
//	MTH(D[0:n])      = H(0x01 || MTH(D[0:k]) || MTH(D[k:n])),  k = largest power of two < n

const (
	refLeafPrefix = byte(0)
	refNodePrefix = byte(1)
)

func refLeaf(d []byte) [32]byte {
	h := sha256.New()
	h.Write([]byte{refLeafPrefix})
	h.Write(d)
	var o [32]byte
	copy(o[:], h.Sum(nil))
	return o
}

func refNode(l, r [32]byte) [32]byte {
	h := sha256.New()
	h.Write([]byte{refNodePrefix})
	h.Write(l[:])
	h.Write(r[:])
	var o [32]byte
	copy(o[:], h.Sum(nil))
	return o
}

func refSplit(n int) int {
	k := 1
	for k<<1 < n {
		k <<= 1
	}
	return k
}

// refMTH computes the root over already hashed leaves.
func refMTH(leaves [][32]byte) [32]byte {
	n := len(leaves)
	if n == 0 {
		return sha256.Sum256(nil)
	}
	if n == 1 {
		return leaves[0]
	}
	k := refSplit(n)
	return refNode(refMTH(leaves[:k]), refMTH(leaves[k:]))
}

// refRoot computes the root over raw leaf payloads.
func refRoot(payloads [][]byte) [32]byte {
	ls := make([][32]byte, len(payloads))
	for i, p := range payloads {
		ls[i] = refLeaf(p)
	}
	return refMTH(ls)
}

// refInclusionPath returns the audit path for leaf m (0-based) in leaves,
// ordered from the leaf level upwards.
func refInclusionPath(m int, leaves [][32]byte) [][32]byte {
	n := len(leaves)
	if n <= 1 {
		return nil
	}
	k := refSplit(n)
	if m < k {
		return append(refInclusionPath(m, leaves[:k]), refMTH(leaves[k:]))
	}
	return append(refInclusionPath(m-k, leaves[k:]), refMTH(leaves[:k]))
}

// refVerifyInclusion recomputes the root from leaf i (1-based) of a tree with
// j leaves using an audit path (independent verifier used to decide whether a
// tampered proof happens to be a correct one).
func refVerifyInclusion(path [][32]byte, i, j uint64, leaf, root [32]byte) bool {
	if i == 0 || i > j {
		return false
	}
	got, ok := refRootFromPath(path, i-1, j, leaf)
	return ok && got == root
}

func refRootFromPath(path [][32]byte, m, n uint64, leaf [32]byte) ([32]byte, bool) {
	// recursive descent mirrors refInclusionPath: the last path element is the
	// sibling at the top split
	if n == 1 {
		if len(path) != 0 {
			return [32]byte{}, false
		}
		return leaf, true
	}
	if len(path) == 0 {
		return [32]byte{}, false
	}
	k := uint64(refSplit(int(n)))
	sib := path[len(path)-1]
	if m < k {
		sub, ok := refRootFromPath(path[:len(path)-1], m, k, leaf)
		if !ok {
			return sub, false
		}
		return refNode(sub, sib), true
	}
	sub, ok := refRootFromPath(path[:len(path)-1], m-k, n-k, leaf)
	if !ok {
		return sub, false
	}
	return refNode(sib, sub), true
}

// refConsistencyPath returns the RFC 6962 consistency proof between the first
// m leaves and all n leaves (m <= n).
func refConsistencyPath(m int, leaves [][32]byte) [][32]byte {
	return refSubproof(m, leaves, true)
}

func refSubproof(m int, leaves [][32]byte, b bool) [][32]byte {
	n := len(leaves)
	if m == n {
		if b {
			return nil
		}
		return [][32]byte{refMTH(leaves)}
	}
	k := refSplit(n)
	if m <= k {
		return append(refSubproof(m, leaves[:k], b), refMTH(leaves[k:]))
	}
	return append(refSubproof(m-k, leaves[k:], false), refMTH(leaves[:k]))
}
