package checks

import (
	"bytes"
	"context"
	"crypto/sha256"
	"errors"
	"fmt"
	"strings"
	"time"

	"github.com/codenotary/immudb/pkg/api/schema"
	"github.com/codenotary/immudb/pkg/database"

	"verifsim/simcore"
)

// C07, layer B — synchronous replication at the database level.
//
// A primary database with synchronous replication (1 or 2 acknowledgements
// required) and one or two replica databases run under the scheduler. Each
// replica is served by a task that speaks the replicator's protocol with the
// real database API on both sides (CurrentState -> ExportTxByID with the
// replica state -> ReplicateTx -> AllowCommitUpto, DiscardPrecommittedTxsSince
// when the primary reports a diverged precommit state), over a simulated
// network that loses, duplicates and (with integrity checks skipped on the
// replica) alters exported transactions, and replicas restart. Writers commit
// on the primary meanwhile.
//
// Invariants, checked at every step: the primary reports a transaction
// committed only when the required number of replicas durably hold it; a
// replica never commits beyond the primary and everything it commits has the
// primary's accumulated hash; after the faults stop every replica converges to
// the primary's history.

func c07bBody(r *simcore.Run) {
	cfg := genStCfg(r, false)
	cfg.Comp = 0
	cfg.Prealloc = false
	cfg.Synced = true
	cfg.HdrVersion = 1
	cfg.MaxConc = 30
	cfg.FileSize = r.Pick(1<<20, 4096, 1024)
	cfg.IdxNodeSize = 4096
	cfg.sig(r)
	r.Logf("cfg %+v (sync replication)", cfg)
	ctx, cancelRun := context.WithCancel(context.Background())
	r.OnStop(cancelRun)

	nRep := 1 + r.Intn(2)
	acks := 1 + r.Intn(nRep)
	prim, err := openDB(r, r.Dir("prim"), cfg, nil)
	if err != nil {
		r.Violation("open-new", "", "cannot create the primary: %v", err)
	}
	prim.AsReplica(false, true, acks)
	r.Defer(func() { prim.Close() })
	reps := make([]database.DB, nRep)
	repDirs := make([]string, nRep)
	for i := range repDirs {
		repDirs[i] = r.Dir(fmt.Sprintf("rep%d", i)) // (r.Dir empties the directory: once per replica)
	}
	open := func(i int) {
		d, err := openDB(r, repDirs[i], cfg, nil)
		if err != nil {
			r.Violation("open-replica", "", "cannot open replica %d: %v", i, err)
		}
		d.AsReplica(true, true, 0)
		reps[i] = d
	}
	for i := range reps {
		open(i)
	}
	r.Defer(func() {
		for _, d := range reps {
			if d != nil {
				d.Close()
			}
		}
	})
	r.Sched.SetSwitchPct(r.Pick(100, 50, 20))

	primAlh := func(id uint64) ([sha256.Size]byte, bool) {
		tx, err := prim.TxByID(ctx, &schema.TxRequest{Tx: id})
		if err != nil {
			return [sha256.Size]byte{}, false
		}
		return schema.TxHeaderFromProto(tx.Header).Alh(), true
	}
	// invariants of one replica with respect to the primary
	checkReplica := func(i int, when string) {
		rs, err := reps[i].CurrentState()
		r.Must(err, "replica state")
		ps, err := prim.CurrentState()
		r.Must(err, "primary state")
		if rs.TxId > ps.TxId {
			r.Violation("replica-ahead", "", "%s: replica %d has committed tx %d, the primary only %d", when, i, rs.TxId, ps.TxId)
		}
		if rs.TxId > 0 {
			if h, ok := primAlh(rs.TxId); !ok || !bytes.Equal(h[:], rs.TxHash) {
				r.Violation("replica-diverged", "", "%s: replica %d committed tx %d with accumulated hash %x, the primary's is %x (known=%v)", when, i, rs.TxId, rs.TxHash, h, ok)
			}
		}
	}

	writersDone := false
	restarting := make([]bool, nRep) // replica i is between Close and reopen: nobody else touches it
	busy := make([]int, nRep)        // other tasks currently reading replica i
	discarded := make([]bool, nRep)  // replica i discarded precommitted transactions at least once
	ackedUpTo := make([]uint64, nRep)
	droppedAcked := false // a discard removed precommitted transactions the primary had been told about
	nWriters, per := 1+r.Intn(2), 2+r.Intn(5)
	var tasks []*simcore.Task
	seq := 0
	for w := 0; w < nWriters; w++ {
		name := fmt.Sprintf("w%d", w)
		tasks = append(tasks, r.Sched.Go(name, func() {
			for i := 0; i < per; i++ {
				r.Yield("c07b-write")
				seq++
				k, v := fmt.Sprintf("k%d", r.Intn(4)), fmt.Sprintf("v%d", seq)
				wctx, cancel := context.WithTimeout(ctx, 20*time.Second)
				hdr, err := prim.Set(wctx, &schema.SetRequest{KVs: []*schema.KeyValue{{Key: []byte(k), Value: []byte(v)}}})
				cancel()
				if err != nil {
					r.Violation("primary-write", "", "%s: Set on the primary failed: %v", name, err)
				}
				// reported committed: enough replicas durably hold it
				holders := 0
				unknown := false
				for j := range reps {
					if restarting[j] {
						unknown = true // cannot be evaluated now
						continue
					}
					busy[j]++
					// durably precommitted on the replica (replicas run with a synced store: ReplicateTx
					// returns after the sync); what it holds under that id is compared with the primary's
					// whenever the replica lets it be read
					rs, err := reps[j].CurrentState()
					if err != nil || rs.PrecommittedTxId < hdr.Id {
						busy[j]--
						continue
					}
					holders++
					if h, ok := primAlh(hdr.Id); ok {
						if rt, err := reps[j].TxByID(ctx, &schema.TxRequest{Tx: hdr.Id}); err == nil && schema.TxHeaderFromProto(rt.Header).Alh() != h {
							r.Violation("replica-diverged", "", "replica %d holds a different tx %d than the primary", j, hdr.Id)
						}
						if rs.PrecommittedTxId == hdr.Id && !bytes.Equal(rs.PrecommittedTxHash, h[:]) {
							holders--
						}
					}
					busy[j]--
				}
				r.Logf("%s: tx %d reported committed, held by %d replica(s), %d required", name, hdr.Id, holders, acks)
				if holders < acks && !unknown && droppedAcked {
					// DiscardPrecommittedTxsSince(committed+1) throws away every precommitted transaction,
					// the genuine ones already reported to the primary included (the replicator does the same)
					r.Finding("committed-without-acks", "C07:discard-drops-acknowledged-precommits", "the primary reported tx %d committed while %d replica(s) hold it (%d required): a replica that had reported it as durably precommitted discarded it together with a diverged later transaction (altered in transit, accepted because integrity checks are skipped) and had not fetched it again yet", hdr.Id, holders, acks)
					r.EndRun()
				}
				if holders < acks && !unknown {
					r.Violation("committed-without-acks", "", "the primary reported tx %d committed while %d replica(s) durably hold it; %d acknowledgement(s) are required", hdr.Id, holders, acks)
				}
			}
		}))
	}

	skip := r.Pct(40) // replicas skip integrity checks: altered transactions get in and must be discarded later
	for i := range reps {
		i := i
		name := fmt.Sprintf("repl%d", i)
		uuid := fmt.Sprintf("replica-%d", i)
		tasks = append(tasks, r.Sched.Go(name, func() {
			lastTx := uint64(0)
			idle := 0
			for step := 0; step < 400; step++ {
				// every protocol round takes (simulated) time: a round trip to the primary
				r.Sched.Sleep(time.Duration(1+r.Intn(5)) * time.Millisecond)
				if r.Pct(4) && busy[i] == 0 {
					// replica restart
					restarting[i] = true
					before, _ := reps[i].CurrentState()
					if err := reps[i].Close(); err != nil {
						r.Violation("close", "", "closing replica %d failed: %v", i, err)
					}
					open(i)
					restarting[i] = false
					lastTx = 0
					r.Fault("replica-restart")
					after, _ := reps[i].CurrentState()
					r.Logf("%s: restarted: committed %d -> %d, precommitted %d -> %d", name, before.TxId, after.TxId, before.PrecommittedTxId, after.PrecommittedTxId)
					if after.TxId >= before.TxId && (after.PrecommittedTxId < before.PrecommittedTxId || (after.PrecommittedTxId == before.PrecommittedTxId && !bytes.Equal(after.PrecommittedTxHash, before.PrecommittedTxHash))) && discarded[i] {
						// discarding does not rewind the tx log: the discarded transactions stay in front of
						// the ones fetched afterwards, and the recovery at open stops at the first mismatch
						r.Finding("replica-lost-acknowledged", "C07:discarded-precommits-reloaded-at-restart", "replica %d held durably precommitted tx %d before a clean restart and %d after it: earlier it had discarded precommitted transactions, which stay in the tx log in front of the transactions fetched afterwards; the recovery at open reloads the discarded ones and drops the later, acknowledged ones (same id with another accumulated hash: %v)", i, before.PrecommittedTxId, after.PrecommittedTxId, after.PrecommittedTxId == before.PrecommittedTxId)
						r.EndRun()
					}
					if after.TxId < before.TxId || after.PrecommittedTxId < before.PrecommittedTxId {
						r.Violation("replica-lost-acknowledged", "", "replica %d held committed tx %d / durably precommitted tx %d before a clean restart and holds %d / %d after it", i, before.TxId, before.PrecommittedTxId, after.TxId, after.PrecommittedTxId)
					}
					checkReplica(i, "after restart")
				}
				st, err := reps[i].CurrentState()
				r.Must(err, "replica state")
				if lastTx == 0 {
					lastTx = st.PrecommittedTxId
				}
				next := lastTx + 1
				req := &schema.ExportTxRequest{Tx: next, AllowPreCommitted: true, SkipIntegrityCheck: skip,
					ReplicaState: &schema.ReplicaState{UUID: uuid, CommittedTxID: st.TxId, CommittedAlh: st.TxHash, PrecommittedTxID: st.PrecommittedTxId, PrecommittedAlh: st.PrecommittedTxHash}}
				ectx, cancel := context.WithTimeout(ctx, time.Second)
				bs, mayID, mayAlh, err := prim.ExportTxByID(ectx, req)
				cancel()
				if err != nil {
					switch {
					case strings.Contains(err.Error(), "replica precommit state diverged"):
						r.Logf("%s: primary reports a diverged precommit state: discarding since %d", name, st.TxId+1)
						if err := reps[i].DiscardPrecommittedTxsSince(st.TxId + 1); err != nil {
							if strings.Contains(err.Error(), "allowed to be committed") {
								// transactions whose commit the primary already allowed are about to be committed:
								// the discard is refused as a whole and tried again in a later round
								r.Probe("c07b-discard-refused-allowed-range")
								continue
							}
							r.Violation("discard", "", "replica %d: DiscardPrecommittedTxsSince(%d) failed: %v", i, st.TxId+1, err)
						}
						after, _ := reps[i].CurrentState()
						if after.PrecommittedTxId != after.TxId || !bytes.Equal(after.PrecommittedTxHash, after.TxHash) {
							r.Violation("discard", "discard-state", "replica %d: after discarding every precommitted transaction its state is committed (%d, %x) / precommitted (%d, %x)", i, after.TxId, after.TxHash, after.PrecommittedTxId, after.PrecommittedTxHash)
						}
						lastTx = st.TxId
						discarded[i] = true
						if st.TxId+1 <= ackedUpTo[i] {
							droppedAcked = true
						}
						r.Probe("c07b-precommitted-discarded")
						continue
					case strings.Contains(err.Error(), "replica commit state diverged"):
						r.Violation("replica-diverged", "", "the primary reports that the COMMITTED state of replica %d diverged: %v", i, err)
					case errors.Is(err, database.ErrNoNewTransactions) || strings.Contains(err.Error(), "no new transactions"):
					default:
						if !isBenignTxErr(err) && !strings.Contains(err.Error(), "context") && !strings.Contains(err.Error(), "already closed") {
							r.Violation("export", "", "ExportTxByID(%d) for replica %d failed: %v", next, i, err)
						}
					}
				}
				if err == nil && st.PrecommittedTxId > ackedUpTo[i] {
					ackedUpTo[i] = st.PrecommittedTxId // the primary accepted this report of the replica's state
				}
				if mayID > st.TxId {
					aerr := reps[i].AllowCommitUpto(mayID, mayAlh)
					r.Logf("%s: AllowCommitUpto(%d) -> %v", name, mayID, aerr)
					if aerr != nil && !strings.Contains(aerr.Error(), "diverged") && !strings.Contains(aerr.Error(), "already closed") && !strings.Contains(aerr.Error(), "illegal") {
						r.Violation("allow-commit", "", "replica %d: AllowCommitUpto(%d) failed: %v", i, mayID, aerr)
					}
					checkReplica(i, fmt.Sprintf("after AllowCommitUpto(%d)", mayID))
				}
				if len(bs) == 0 {
					idle++
					if writersDone {
						ps, _ := prim.CurrentState()
						rs, _ := reps[i].CurrentState()
						if rs.TxId == ps.TxId && ps.PrecommittedTxId == ps.TxId {
							return
						}
					}
					r.Sched.Sleep(20 * time.Millisecond)
					continue
				}
				idle = 0
				// the network
				switch f := r.Intn(20); {
				case f == 0:
					r.Fault("exported-tx-lost")
					continue
				case f == 1 && skip:
					alt := append([]byte(nil), bs...)
					alt[len(alt)-1-r.Intn(min(len(alt), 6))] ^= 1 << uint(r.Intn(8))
					actx, cancel := context.WithTimeout(ctx, time.Second)
					_, aerr := reps[i].ReplicateTx(actx, alt, true, false)
					cancel()
					r.Fault("exported-tx-altered")
					r.Logf("%s: altered tx %d delivered -> %v", name, next, aerr)
					if aerr == nil {
						lastTx = next
					}
					checkReplica(i, "after an altered transaction was delivered")
					continue
				}
				rctx, cancel := context.WithTimeout(ctx, time.Second)
				_, rerr := reps[i].ReplicateTx(rctx, bs, skip, false)
				cancel()
				r.Logf("%s: ReplicateTx(%d) -> %v", name, next, rerr)
				if rerr == nil || strings.Contains(fmt.Sprint(rerr), "already committed") || strings.Contains(fmt.Sprint(rerr), "context") {
					lastTx = next
				}
				if r.Intn(20) == 2 {
					dctx, cancel := context.WithTimeout(ctx, time.Second)
					reps[i].ReplicateTx(dctx, bs, skip, false)
					cancel()
					r.Fault("exported-tx-duplicated")
				}
				checkReplica(i, fmt.Sprintf("after ReplicateTx(%d)", next))
			}
			if writersDone {
				ps, _ := prim.CurrentState()
				rs, _ := reps[i].CurrentState()
				if rs.TxId != ps.TxId {
					r.Violation("replica-behind", "", "replica %d stopped at tx %d of %d after 400 protocol rounds without making it to the primary's state", i, rs.TxId, ps.TxId)
				}
			}
		}))
	}
	// writers first, then the replicators drain
	for _, t := range tasks[:nWriters] {
		t.Join()
	}
	writersDone = true
	for _, t := range tasks[nWriters:] {
		t.Join()
	}
	ps, _ := prim.CurrentState()
	for i := range reps {
		checkReplica(i, "final")
		rs, _ := reps[i].CurrentState()
		if rs.TxId != ps.TxId {
			r.Violation("replica-behind", "", "final: replica %d holds %d of the primary's %d transactions", i, rs.TxId, ps.TxId)
		}
		for id := uint64(1); id <= ps.TxId; id++ {
			h, _ := primAlh(id)
			rt, err := reps[i].TxByID(ctx, &schema.TxRequest{Tx: id})
			if err != nil || schema.TxHeaderFromProto(rt.Header).Alh() != h {
				r.Violation("replica-diverged", "", "final: tx %d on replica %d differs from the primary's (%v)", id, i, err)
			}
		}
	}
	r.Sig("c07b", nRep, acks, skip, ps.TxId)
	r.Sample(map[string]interface{}{"layer": "synchronous replication (database API)", "replicas": nRep, "acks_required": acks, "primary_txs": ps.TxId, "integrity_checks_skipped_on_replica": skip})
}
