package checks

import (
	"errors"
	"fmt"

	"github.com/codenotary/immudb/embedded/store"

	"verifsim/simcore"
)

// C01 — verified reads/writes: proofs are complete and sound (tamper evidence).
//
// An honest store builds a history under the simulator (concurrent committers,
// restarts). A verifying client holding a trusted state (tx i, Alh_i) asks for
// the dual proof towards tx j and for the inclusion proof of entries; the
// responses are delivered untouched (completeness) and altered by a tampering
// adversary on the response path, or taken from a forked server (soundness).

func init() {
	register(&simcore.Check{ID: "C01", Bubble: true, Liveness: true, Body: c01Body, AltBody: c01bBody, AltPct: 10})
}

func c01Body(r *simcore.Run) {
	cfg := genStCfg(r, false)
	cfg.Comp = 0
	cfg.Prealloc = false
	cfg.MaxConc = 30
	cfg.sig(r)
	r.Logf("cfg %+v", cfg)
	e := newStoreEnv(r, cfg, r.Dir("honest"))
	if err := e.open(); err != nil {
		r.Violation("open-new", "", "cannot open the store: %v", err)
	}
	r.Sched.SetSwitchPct(r.Pick(100, 50, 20))
	var tasks []*simcore.Task
	nTasks, per := 1+r.Intn(3), 2+r.Intn(6)
	for t := 0; t < nTasks; t++ {
		name := fmt.Sprintf("c%d", t)
		tasks = append(tasks, r.Sched.Go(name, func() { e.committer(name, per) }))
	}
	for _, t := range tasks {
		t.Join()
	}
	if r.Pct(30) {
		// server restart between requests: the client's state persists
		if err := e.st.Close(); err != nil {
			r.Violation("close", "", "Close failed: %v", err)
		}
		if err := e.open(); err != nil {
			r.Violation("reopen", "", "reopen failed: %v", err)
		}
	}
	n := e.verifyHistory("honest server", true)
	if n < 2 {
		return
	}
	lagging := false
	if n >= 3 && r.Pct(40) {
		if lag := c01BuildLagging(r, e, cfg, n); lag != nil {
			e.st.Close()
			e = lag
			lagging = true
			if m := e.verifyHistory("server holding the re-linked history", true); m != n {
				r.Violation("lagging-history-altered", "", "the re-linked history has %d transactions, the original %d", m, n)
			}
		}
	}
	alh := func(id uint64) [32]byte { return e.led[id].Alh }
	hdrs := make([]*store.TxHeader, n+1)
	for id := uint64(1); id <= n; id++ {
		h, err := e.st.ReadTxHeader(id, false, false)
		if err != nil {
			r.Violation("read-tx", "", "ReadTxHeader(%d) failed: %v", id, err)
		}
		hdrs[id] = h
	}

	// a forked server: shares the first m transactions, then diverges
	var fork *storeEnv
	var forkFrom uint64
	if r.Pct(40) {
		forkFrom = 1 + uint64(r.Intn(int(n)))
		fork = newStoreEnv(r, cfg, r.Dir("fork"))
		if err := fork.open(); err != nil {
			r.Violation("open-new", "", "cannot open the forked store: %v", err)
		}
		tx := store.NewTx(16, 64)
		for id := uint64(1); id < forkFrom; id++ {
			bs, err := e.st.ExportTx(id, false, false, tx)
			r.Must(err, "export for fork")
			if _, err := fork.st.ReplicateTx(r.Ctx(), bs, false, false); err != nil {
				r.Trouble("building the fork: ReplicateTx(%d): %v", id, err)
			}
		}
		fork.led = map[uint64]*ledTx{}
		fork.committer("forker", int(n-forkFrom)+1+r.Intn(3))
		fork.st.Sync()
	}

	pairs, tampered, accepted := 0, 0, 0
	maxPairs := 40
	if r.Tier == "thorough" {
		maxPairs = 200
	}
	for i := uint64(1); i <= n && pairs < maxPairs; i++ {
		for j := i; j <= n && pairs < maxPairs; j++ {
			if n > 8 && r.Intn(3) != 0 {
				continue
			}
			pairs++
			var proof *store.DualProof
			var err error
			pv, stack := r.Catch(func() { proof, err = e.st.DualProof(hdrs[i], hdrs[j]) })
			if pv != nil {
				r.Violation("panic", "", "DualProof(%d,%d) panicked: %v\n%s", i, j, pv, stack)
			}
			if err != nil {
				r.Violation("completeness", "", "the honest server cannot produce DualProof(%d,%d): %v", i, j, err)
			}
			// completeness: the untouched response verifies against the trusted state and advances it
			if !store.VerifyDualProof(proof, i, j, alh(i), alh(j)) {
				r.Violation("completeness", "", "the honest DualProof(%d -> %d of %d) does not verify against the states the client trusts", i, j, n)
			}
			p2, err := e.st.DualProofV2(hdrs[i], hdrs[j])
			if err != nil && (hdrs[i].BlTxID != i-1 || hdrs[j].BlTxID != j-1) && errors.Is(err, store.ErrUnexpectedLinkingError) {
				// the second proof format is defined for fully linked headers only and says so
				r.Probe("c01-v2-refuses-lagging-headers")
				p2 = nil
			} else if err != nil {
				r.Violation("completeness", "", "the honest server cannot produce DualProofV2(%d,%d): %v", i, j, err)
			}
			if p2 != nil {
				if err := store.VerifyDualProofV2(p2, i, j, alh(i), alh(j)); err != nil {
					r.Violation("completeness", "", "the honest DualProofV2(%d -> %d of %d) does not verify: %v", i, j, n, err)
				}
			}
			// soundness: coordinated forger (re-rooted / re-chained tree inside the trusted range)
			for k := 0; k < 3; k++ {
				fp, claim, leaf, how := c01Reroot(r, proof, i, j, alh, k == 2)
				if fp == nil {
					continue
				}
				tampered++
				ok := false
				pv, stack := r.Catch(func() { ok = store.VerifyDualProof(fp, i, j, alh(i), claim) })
				if pv != nil {
					r.Violation("verifier-panic", "", "VerifyDualProof panicked on a %s: %v\n%s", how, pv, stack)
				}
				if ok {
					r.Logf("forged proof accepted: source %d (BlTxID %d) target %d (BlTxID %d) forged leaf %d: %s", i, hdrs[i].BlTxID, j, hdrs[j].BlTxID, leaf, how)
					if i > hdrs[j].BlTxID && leaf > hdrs[i].BlTxID {
						// the trusted transaction lies beyond the target's tree (lagging linking only)
						r.Finding("soundness-rerooted", "C01:lagging-tree-not-bound-to-trusted-chain", "a client trusting tx %d verified tx %d, which is linked to the tree of size %d < %d, although leaf %d of that tree is not the history's transaction %d (%s): nothing in the dual proof ties the leaves between the trusted transaction's tree size (%d) and the target's to the linear chain the trusted state commits to", i, j, hdrs[j].BlTxID, i, leaf, leaf, how, hdrs[i].BlTxID)
						continue
					}
					r.Violation("soundness-rerooted", "", "a client trusting tx %d (linked to the tree of size %d) verified tx %d (tree of size %d) although leaf %d of that tree is not the history's transaction %d: %s", i, hdrs[i].BlTxID, j, hdrs[j].BlTxID, leaf, leaf, how)
				}
				r.Fault("rerooted-tree")
			}
			// soundness: tampering adversary on the response path
			for k := 0; k < 6; k++ {
				tp, ti, tj, ta, tb, how := c01Tamper(r, proof, i, j, n, alh)
				if how == "" {
					continue
				}
				tampered++
				ok := false
				pv, stack := r.Catch(func() { ok = store.VerifyDualProof(tp, ti, tj, ta, tb) })
				if pv != nil {
					r.Violation("verifier-panic", "", "VerifyDualProof panicked on a response altered by %s: %v\n%s", how, pv, stack)
				}
				if !ok {
					continue
				}
				accepted++
				// acceptance implies truth: both states are the history's and the new one extends the trusted one
				truth := ti >= 1 && ti <= tj && tj <= n && ta == alh(ti) && tb == alh(tj)
				if !truth {
					r.Violation("soundness", "", "VerifyDualProof accepted a response for (%d -> %d) altered by %s: it now claims (%d -> %d) with states that are not the history's", i, j, how, ti, tj)
				}
			}
			// soundness: forked server
			if fork != nil {
				fn, _ := fork.st.CommittedAlh()
				if j <= fn && i <= fn {
					fi, e1 := fork.st.ReadTxHeader(i, false, false)
					fj, e2 := fork.st.ReadTxHeader(j, false, false)
					if e1 == nil && e2 == nil {
						fp, err := fork.st.DualProof(fi, fj)
						if err == nil {
							// the client trusts (i, Alh_i) obtained from the honest server
							ok := store.VerifyDualProof(fp, i, j, alh(i), fj.Alh())
							if ok && i >= forkFrom && fi.Alh() != alh(i) {
								r.Violation("soundness", "", "a client trusting tx %d of the honest history verified a proof from a server that forked at tx %d", i, forkFrom)
							}
							if ok && j >= forkFrom {
								r.Probe("c01-fork-extends-shared-prefix")
							}
							r.Fault("forked-server")
						}
					}
				}
			}
		}
	}
	// entry inclusion proofs
	tx := store.NewTx(16, 64)
	for id := uint64(1); id <= n; id++ {
		if n > 6 && r.Intn(3) != 0 {
			continue
		}
		if err := e.st.ReadTx(id, false, tx); err != nil {
			r.Violation("read-tx", "", "ReadTx(%d) failed: %v", id, err)
		}
		lt := e.led[id]
		digestFor, err := store.EntrySpecDigestFor(tx.Header().Version)
		if err != nil {
			r.Violation("completeness", "", "no entry digest for header version %d", tx.Header().Version)
		}
		for idx, le := range lt.Entries {
			proof, err := tx.Proof(le.Key)
			if err != nil {
				r.Violation("completeness", "", "tx %d cannot produce the inclusion proof of entry %q: %v", id, le.Key, err)
			}
			spec := func(key, val, md []byte) *store.EntrySpec {
				es := &store.EntrySpec{Key: key, Value: val}
				if md != nil {
					m := store.NewKVMetadata()
					if le.Deleted {
						m.AsDeleted(true)
					}
					if le.NonIndexable {
						m.AsNonIndexable(true)
					}
					es.Metadata = m
					if string(m.Bytes()) != string(md) {
						return nil // expirable metadata: rebuilt elsewhere
					}
				}
				return es
			}
			honest := spec(le.Key, le.Value, le.MD)
			if honest == nil {
				continue
			}
			if !store.VerifyInclusion(proof, digestFor(honest), tx.Header().Eh) {
				r.Violation("completeness", "", "the inclusion proof of entry %d (%q) of tx %d does not verify", idx, le.Key, id)
			}
			// altered entry: key, value
			for k := 0; k < 3; k++ {
				key, val := append([]byte(nil), le.Key...), append([]byte(nil), le.Value...)
				how := ""
				switch r.Intn(3) {
				case 0:
					key[r.Intn(len(key))] ^= 1 << uint(r.Intn(8))
					how = "altered key"
				case 1:
					if len(val) == 0 {
						val = []byte("x")
					} else {
						val[r.Intn(len(val))] ^= 1 << uint(r.Intn(8))
					}
					how = "altered value"
				default:
					if len(lt.Entries) < 2 {
						continue
					}
					o := lt.Entries[(idx+1)%len(lt.Entries)]
					key, val = o.Key, o.Value
					if string(o.MD) != string(le.MD) {
						continue
					}
					how = "entry of another position"
				}
				forged := spec(key, val, le.MD)
				tampered++
				if store.VerifyInclusion(proof, digestFor(forged), tx.Header().Eh) {
					r.Violation("soundness", "", "the inclusion proof of entry %d (%q) of tx %d verifies for an %s", idx, le.Key, id, how)
				}
			}
		}
	}
	if fork != nil {
		fork.st.Close()
	}
	e.st.Close()
	r.Sig("c01", n, pairs, forkFrom, lagging)
	r.Fault("tampered-response")
	r.Sample(map[string]interface{}{"config": cfg, "transactions": n, "state_pairs": pairs, "tampered_responses": tampered, "tampered_accepted_but_true": accepted, "fork_at": forkFrom, "lagging_binary_linking": lagging})
}

// c01Tamper alters one aspect of a dual-proof response or of the claim it is
// checked against. Returns how == "" if nothing was changed.
func c01Tamper(r *simcore.Run, p *store.DualProof, i, j, n uint64, alh func(uint64) [32]byte) (*store.DualProof, uint64, uint64, [32]byte, [32]byte, string) {
	q := *p
	sh, th := *p.SourceTxHeader, *p.TargetTxHeader
	q.SourceTxHeader, q.TargetTxHeader = &sh, &th
	q.InclusionProof = append([][32]byte(nil), p.InclusionProof...)
	q.ConsistencyProof = append([][32]byte(nil), p.ConsistencyProof...)
	q.LastInclusionProof = append([][32]byte(nil), p.LastInclusionProof...)
	if p.LinearProof != nil {
		lp := *p.LinearProof
		lp.Terms = append([][32]byte(nil), p.LinearProof.Terms...)
		q.LinearProof = &lp
	}
	if p.LinearAdvanceProof != nil {
		la := *p.LinearAdvanceProof
		la.LinearProofTerms = append([][32]byte(nil), p.LinearAdvanceProof.LinearProofTerms...)
		q.LinearAdvanceProof = &la
	}
	ti, tj, ta, tb := i, j, alh(i), alh(j)
	flip := func(h *[32]byte) { h[r.Intn(32)] ^= 1 << uint(r.Intn(8)) }
	mutTerms := func(t *[][32]byte) bool {
		if q, how := mutateProof(r, *t); q != nil && how != "" {
			*t = q
			return true
		}
		return false
	}
	how := ""
	switch r.Intn(16) {
	case 0:
		ta = alh(1 + uint64(r.Intn(int(n))))
		how = "source state of another tx"
	case 1:
		tb = alh(1 + uint64(r.Intn(int(n))))
		how = "target state of another tx"
	case 2:
		flip(&ta)
		how = "flipped source state"
	case 3:
		flip(&tb)
		how = "flipped target state"
	case 4:
		ti = 1 + uint64(r.Intn(int(n)))
		how = "shifted source id"
	case 5:
		tj = 1 + uint64(r.Intn(int(n)))
		how = "shifted target id"
	case 6:
		h := q.TargetTxHeader
		switch r.Intn(7) {
		case 0:
			h.Ts++
		case 1:
			h.BlTxID ^= 1
		case 2:
			flip(&h.BlRoot)
		case 3:
			flip(&h.PrevAlh)
		case 4:
			h.NEntries++
		case 5:
			flip(&h.Eh)
		default:
			h.ID++
		}
		how = "altered target header"
	case 7:
		h := q.SourceTxHeader
		switch r.Intn(4) {
		case 0:
			h.Ts++
		case 1:
			flip(&h.PrevAlh)
		case 2:
			flip(&h.Eh)
		default:
			h.ID++
		}
		how = "altered source header"
	case 8:
		if mutTerms(&q.InclusionProof) {
			how = "altered inclusion proof"
		}
	case 9:
		if mutTerms(&q.ConsistencyProof) {
			how = "altered consistency proof"
		}
	case 10:
		if mutTerms(&q.LastInclusionProof) {
			how = "altered last-inclusion proof"
		}
	case 11:
		flip(&q.TargetBlTxAlh)
		how = "flipped TargetBlTxAlh"
	case 12:
		if q.LinearProof != nil && mutTerms(&q.LinearProof.Terms) {
			how = "altered linear proof"
		}
	case 13:
		if q.LinearProof != nil {
			q.LinearProof.SourceTxID++
			how = "shifted linear proof source"
		}
	case 14:
		if q.LinearAdvanceProof != nil && mutTerms(&q.LinearAdvanceProof.LinearProofTerms) {
			how = "altered linear advance proof"
		}
	default:
		// swap source and target
		q.SourceTxHeader, q.TargetTxHeader = q.TargetTxHeader, q.SourceTxHeader
		ti, tj, ta, tb = tj, ti, tb, ta
		if ti != tj {
			how = "swapped source and target"
		}
	}
	return &q, ti, tj, ta, tb, how
}
