package checks

import (
	"bytes"
	"context"
	"crypto/sha256"
	"fmt"
	"net"
	"sort"
	"strings"
	"time"

	"github.com/codenotary/immudb/embedded/logger"
	"github.com/codenotary/immudb/pkg/api/protomodel"
	"github.com/codenotary/immudb/pkg/api/schema"
	immuclient "github.com/codenotary/immudb/pkg/client"
	"github.com/codenotary/immudb/pkg/client/state"
	"github.com/codenotary/immudb/pkg/server"
	"github.com/codenotary/immudb/pkg/server/sessions"
	"github.com/codenotary/immudb/pkg/verification"
	"google.golang.org/grpc"
	"google.golang.org/grpc/credentials/insecure"
	"google.golang.org/grpc/metadata"
	"google.golang.org/grpc/test/bufconn"
	"google.golang.org/protobuf/proto"
	"google.golang.org/protobuf/reflect/protoreflect"
	"google.golang.org/protobuf/types/known/emptypb"
	"google.golang.org/protobuf/types/known/structpb"

	"verifsim/simcore"
)

// C01, layer B — the client/server flow of verified operations.
//
// A real ImmuServer and the real pkg/client run in the bubble, connected by
// gRPC over bufconn. The client performs verified writes and reads (complete-
// ness: every honest response verifies and advances the trusted state) and,
// for soundness, a client-side interceptor plays the man in the middle: it
// alters one seeded field of the server's response (entry, transaction header,
// any proof term, a list length) or replays an older honest response. The
// verified call then either fails or returns exactly what the honest server
// holds, and the trusted state kept by the client is always a state the honest
// server went through.

type c01bTamper struct {
	r     *simcore.Run
	armed bool
	what  string
	prev  map[string][]proto.Message
	// coordinated forgery of a VerifiableSQLGet response: the ids of these two columns change places
	swapCols [2]string
}

func (t *c01bTamper) intercept(ctx context.Context, method string, req, reply interface{}, cc *grpc.ClientConn, invoker grpc.UnaryInvoker, opts ...grpc.CallOption) error {
	err := invoker(ctx, method, req, reply, cc, opts...)
	m, ok := reply.(proto.Message)
	if err != nil || !ok || !(strings.Contains(method, "Verifiable") || strings.HasSuffix(method, "/ProofDocument")) {
		return err
	}
	honest := proto.Clone(m)
	if ve, ok := m.(*schema.VerifiableSQLEntry); ok && t.swapCols[0] != "" {
		a, b := t.swapCols[0], t.swapCols[1]
		ve.ColIdsByName[a], ve.ColIdsByName[b] = ve.ColIdsByName[b], ve.ColIdsByName[a]
		t.r.Logf("tamper VerifiableSQLGet: ColIdsByName of %s and %s exchanged", a, b)
	}
	if t.armed {
		t.armed = false
		t.what = method[strings.LastIndex(method, "/")+1:] + ": " + t.alter(m, t.prev[method])
		t.r.Logf("tamper %s", t.what)
	}
	t.prev[method] = append(t.prev[method], honest)
	if len(t.prev[method]) > 6 {
		t.prev[method] = t.prev[method][1:]
	}
	return err
}

type c01bLeaf struct {
	path string
	msg  protoreflect.Message
	fd   protoreflect.FieldDescriptor
	idx  int // element of a repeated scalar field, -1 otherwise
	list bool
	mkey *protoreflect.MapKey // entry of a map field with scalar values
}

func c01bLeaves(prefix string, m protoreflect.Message, out *[]c01bLeaf) {
	m.Range(func(fd protoreflect.FieldDescriptor, v protoreflect.Value) bool {
		p := prefix + string(fd.Name())
		switch {
		case fd.IsMap():
			if fd.MapValue().Kind() == protoreflect.MessageKind {
				break
			}
			v.Map().Range(func(k protoreflect.MapKey, _ protoreflect.Value) bool {
				kk := k
				*out = append(*out, c01bLeaf{path: fmt.Sprintf("%s[%s]", p, k.String()), msg: m, fd: fd, idx: -1, mkey: &kk})
				return true
			})
		case fd.IsList():
			l := v.List()
			if l.Len() > 0 {
				*out = append(*out, c01bLeaf{path: p + "[len]", msg: m, fd: fd, idx: -1, list: true})
			}
			for i := 0; i < l.Len(); i++ {
				if fd.Kind() == protoreflect.MessageKind {
					c01bLeaves(fmt.Sprintf("%s[%d].", p, i), l.Get(i).Message(), out)
				} else {
					*out = append(*out, c01bLeaf{path: fmt.Sprintf("%s[%d]", p, i), msg: m, fd: fd, idx: i})
				}
			}
		case fd.Kind() == protoreflect.MessageKind:
			c01bLeaves(p+".", v.Message(), out)
		default:
			*out = append(*out, c01bLeaf{path: p, msg: m, fd: fd, idx: -1})
		}
		return true
	})
}

func (t *c01bTamper) alter(m proto.Message, older []proto.Message) string {
	r := t.r
	if len(older) > 0 && r.Pct(15) {
		// an honest but older response to another request, replayed
		o := older[r.Intn(len(older))]
		proto.Reset(m)
		proto.Merge(m, o)
		return "whole response replaced by an earlier honest response"
	}
	var leaves []c01bLeaf
	c01bLeaves("", m.ProtoReflect(), &leaves)
	// Range order over fields is not specified: order by path
	for i := 1; i < len(leaves); i++ {
		for j := i; j > 0 && leaves[j].path < leaves[j-1].path; j-- {
			leaves[j], leaves[j-1] = leaves[j-1], leaves[j]
		}
	}
	if len(leaves) == 0 {
		return "nothing to alter"
	}
	lf := leaves[r.Intn(len(leaves))]
	if lf.list {
		l := lf.msg.Mutable(lf.fd).List()
		switch r.Intn(3) {
		case 0:
			l.Truncate(l.Len() - 1)
			return lf.path + " shortened by one"
		case 1:
			l.Append(l.Get(r.Intn(l.Len())))
			return lf.path + " extended by a copy of one of its elements"
		default:
			if l.Len() >= 2 {
				a, b := l.Get(0), l.Get(l.Len()-1)
				if lf.fd.Kind() == protoreflect.MessageKind {
					ca, cb := proto.Clone(a.Message().Interface()), proto.Clone(b.Message().Interface())
					l.Set(0, protoreflect.ValueOfMessage(cb.ProtoReflect()))
					l.Set(l.Len()-1, protoreflect.ValueOfMessage(ca.ProtoReflect()))
				} else {
					l.Set(0, b)
					l.Set(l.Len()-1, a)
				}
				return lf.path + " first and last element swapped"
			}
			l.Truncate(0)
			return lf.path + " emptied"
		}
	}
	if lf.mkey != nil {
		// an entry of a map with scalar values: it takes the value of another entry, or moves
		mp := lf.msg.Mutable(lf.fd).Map()
		var others []string
		vals := map[string]protoreflect.Value{}
		mp.Range(func(k protoreflect.MapKey, v protoreflect.Value) bool {
			if k.String() != lf.mkey.String() {
				others = append(others, k.String())
				vals[k.String()] = v
			}
			return true
		})
		sort.Strings(others)
		if len(others) > 0 && r.Pct(70) {
			o := others[r.Intn(len(others))]
			if !vals[o].Equal(mp.Get(*lf.mkey)) {
				mp.Set(*lf.mkey, vals[o])
				return lf.path + " given the value of entry " + o
			}
		}
		mp.Clear(*lf.mkey)
		return lf.path + " removed"
	}
	get := func() protoreflect.Value {
		if lf.idx >= 0 {
			return lf.msg.Get(lf.fd).List().Get(lf.idx)
		}
		return lf.msg.Get(lf.fd)
	}
	set := func(v protoreflect.Value) {
		if lf.idx >= 0 {
			lf.msg.Mutable(lf.fd).List().Set(lf.idx, v)
			return
		}
		lf.msg.Set(lf.fd, v)
	}
	v := get()
	switch lf.fd.Kind() {
	case protoreflect.BytesKind:
		b := append([]byte(nil), v.Bytes()...)
		if len(b) == 0 {
			b = []byte{1}
		} else {
			b[r.Intn(len(b))] ^= 1 << uint(r.Intn(8))
		}
		set(protoreflect.ValueOfBytes(b))
		return lf.path + " one bit flipped"
	case protoreflect.Uint64Kind, protoreflect.Fixed64Kind:
		d := uint64(1 + r.Intn(2))
		if v.Uint() > d && r.Bool() {
			set(protoreflect.ValueOfUint64(v.Uint() - d))
			return fmt.Sprintf("%s decreased by %d", lf.path, d)
		}
		set(protoreflect.ValueOfUint64(v.Uint() + d))
		return fmt.Sprintf("%s increased by %d", lf.path, d)
	case protoreflect.Uint32Kind, protoreflect.Fixed32Kind:
		set(protoreflect.ValueOfUint32(uint32(v.Uint()) + 1))
		return lf.path + " increased by 1"
	case protoreflect.Int64Kind, protoreflect.Sint64Kind, protoreflect.Sfixed64Kind:
		set(protoreflect.ValueOfInt64(v.Int() + 1))
		return lf.path + " increased by 1"
	case protoreflect.Int32Kind, protoreflect.Sint32Kind, protoreflect.Sfixed32Kind:
		set(protoreflect.ValueOfInt32(int32(v.Int()) + 1))
		return lf.path + " increased by 1"
	case protoreflect.BoolKind:
		set(protoreflect.ValueOfBool(!v.Bool()))
		return lf.path + " toggled"
	case protoreflect.StringKind:
		set(protoreflect.ValueOfString(v.String() + "x"))
		return lf.path + " extended"
	case protoreflect.DoubleKind:
		set(protoreflect.ValueOfFloat64(v.Float() + 1))
		return lf.path + " increased by 1"
	}
	return lf.path + " left as is (kind not altered)"
}

type c01bClient struct {
	immuclient.ImmuClient
	state func() state.StateService
}

type c01bVer struct {
	tx  uint64
	val string
}

func c01bBody(r *simcore.Run) {
	r.Nontrivial()
	dir := r.Dir("srv-0")
	lis := bufconn.Listen(1 << 20)
	so := sessions.DefaultOptions().WithMaxSessionInactivityTime(time.Hour).WithSessionGuardCheckInterval(10 * time.Minute)
	opts := server.DefaultOptions().WithDir(dir).WithAuth(true).WithListener(lis).WithAdminPassword("immudb").
		WithMetricsServer(false).WithWebServer(false).WithPgsqlServer(false).WithSessionOptions(so).WithPidfile("").WithLogfile("")
	srv := server.DefaultServer().WithOptions(opts).WithLogger(logger.NewMemoryLoggerWithLevel(logger.LogError)).(*server.ImmuServer)
	if err := srv.Initialize(); err != nil {
		r.Violation("server-init", "", "Initialize failed: %v", err)
	}
	go srv.GrpcServer.Serve(lis)
	dialer := grpc.WithContextDialer(func(ctx context.Context, _ string) (net.Conn, error) { return lis.DialContext(ctx) })
	raw, err := grpc.NewClient("passthrough:///bufnet", dialer, grpc.WithTransportCredentials(insecure.NewCredentials()))
	r.Must(err, "dial")
	var clients []*c01bClient
	r.Defer(func() {
		for _, c := range clients {
			if c.IsConnected() {
				c.CloseSession(context.Background())
			}
		}
		raw.Close()
		srv.GrpcServer.Stop()
		srv.CloseDatabases()
		lis.Close()
		time.Sleep(2 * time.Second)
	})
	ctx := context.Background()
	rawc := schema.NewImmuServiceClient(raw)
	os1, err := rawc.OpenSession(ctx, &schema.OpenSessionRequest{Username: []byte("immudb"), Password: []byte("immudb"), DatabaseName: "defaultdb"})
	r.Must(err, "admin session")
	actx := metadata.AppendToOutgoingContext(ctx, "sessionid", os1.SessionID)
	_, err = rawc.CreateDatabaseV2(actx, &schema.CreateDatabaseRequest{Name: "db1", Settings: c18SmallDB()})
	r.Must(err, "create db1")
	os2, err := rawc.OpenSession(ctx, &schema.OpenSessionRequest{Username: []byte("immudb"), Password: []byte("immudb"), DatabaseName: "db1"})
	r.Must(err, "honest session")
	hctx := metadata.AppendToOutgoingContext(ctx, "sessionid", os2.SessionID)

	tam := &c01bTamper{r: r, prev: map[string][]proto.Message{}}
	newClient := func(name string) *c01bClient {
		co := immuclient.DefaultOptions().WithDir(r.Dir("client-" + name)).WithAddress("passthrough:///bufnet").WithPort(3322).
			WithDialOptions([]grpc.DialOption{dialer, grpc.WithTransportCredentials(insecure.NewCredentials()), grpc.WithChainUnaryInterceptor(tam.intercept)}).
			WithHeartBeatFrequency(30 * time.Minute).WithMetrics(false)
		c := immuclient.NewClient().WithOptions(co)
		if err := c.OpenSession(ctx, []byte("immudb"), []byte("immudb"), "db1"); err != nil {
			r.Violation("client-open", "", "client %s cannot open a session: %v", name, err)
		}
		cc := &c01bClient{ImmuClient: c, state: func() state.StateService { return c.StateService }}
		clients = append(clients, cc)
		return cc
	}
	cur := newClient("a")
	lag := newClient("b") // used rarely: its trusted state lags far behind
	curName := "a"

	model := map[string][]c01bVer{}
	alh := map[uint64][sha256.Size]byte{}
	keys := []string{"k0", "k1", "k2", "k3"}
	refs := map[string]bool{} // keys with a reference "ref:<key>" pointing at them
	// the honest server's accumulated hash of a transaction
	honestAlh := func(tx uint64) [sha256.Size]byte {
		if h, ok := alh[tx]; ok {
			return h
		}
		t, err := rawc.TxById(hctx, &schema.TxRequest{Tx: tx})
		if err != nil {
			r.Violation("honest-read", "", "the honest server cannot return tx %d: %v", tx, err)
		}
		h := schema.TxHeaderFromProto(t.Header).Alh()
		alh[tx] = h
		return h
	}
	trusted := func(c *c01bClient, who, after string) {
		// the state the client trusts is read from its own cache, not from the server
		ss := c.state()
		if err := ss.CacheLock(); err != nil {
			r.Trouble("client state cache lock: %v", err)
		}
		st, err := ss.GetState(ctx, "db1")
		ss.CacheUnlock()
		if err != nil {
			r.Violation("client-state", "", "client %s has no trusted state after %s: %v", who, after, err)
		}
		if st.TxId == 0 {
			return
		}
		h := honestAlh(st.TxId)
		if !bytes.Equal(st.TxHash, h[:]) {
			r.Violation("forged-state-trusted", "", "after %s client %s trusts state (tx %d, %x) but the honest server's accumulated hash of tx %d is %x", after, who, st.TxId, st.TxHash, st.TxId, h)
		}
	}

	trustedTx := func(c *c01bClient) uint64 {
		ss := c.state()
		if err := ss.CacheLock(); err != nil {
			r.Trouble("client state cache lock: %v", err)
		}
		defer ss.CacheUnlock()
		st, err := ss.GetState(ctx, "db1")
		if err != nil || st == nil {
			return 0
		}
		return st.TxId
	}
	nOps := 6 + r.Intn(18)
	tampered, rejected, harmless := 0, 0, 0
	for i := 0; i < nOps; i++ {
		c, who := cur, curName
		if r.Pct(12) {
			c, who = lag, "b(lagging)"
		}
		k := keys[r.Intn(len(keys))]
		// a client without a trusted state has nothing to verify against (trust on
		// first use): responses are only altered once it holds one
		tamper := r.Pct(35) && trustedTx(c) > 0
		var what string
		var opErr error
		var gotEntry *schema.Entry
		var gotTx *schema.Tx
		var gotHdr *schema.TxHeader
		viaRef := false
		arm := func() {
			if tamper {
				tam.armed, tam.what = true, ""
			}
		}
		switch w := r.Intn(10); {
		case w < 2: // plain write
			v := fmt.Sprintf("v%d", i)
			kvs := []*schema.KeyValue{{Key: []byte(k), Value: []byte(v)}}
			if r.Pct(40) {
				// a second entry whose metadata combines attributes (covered by the entries digest
				// that VerifiedTxByID rebuilds from the response): expirable and/or not indexable
				md := &schema.KVMetadata{}
				if m := r.Intn(3); m != 1 {
					md.Expiration = &schema.Expiration{ExpiresAt: time.Now().Add(1000 * time.Hour).Unix()}
				}
				if md.Expiration == nil || r.Bool() {
					md.NonIndexable = true
				}
				kvs = append(kvs, &schema.KeyValue{Key: []byte(fmt.Sprintf("aux%d", i)), Value: []byte("x"), Metadata: md})
			}
			hdr, err := c.SetAll(ctx, &schema.SetRequest{KVs: kvs})
			if err != nil {
				r.Violation("write", "", "Set failed: %v", err)
			}
			model[k] = append(model[k], c01bVer{hdr.Id, v})
			r.Logf("%s set %s=%s tx %d", who, k, v, hdr.Id)
			continue
		case w < 4: // verified write
			v := fmt.Sprintf("v%d", i)
			what = fmt.Sprintf("VerifiedSet(%s=%s)", k, v)
			arm()
			gotHdr, opErr = c.VerifiedSet(ctx, []byte(k), []byte(v))
			// the server committed it whether or not the client accepted the answer
			st, err := rawc.CurrentState(hctx, &emptypb.Empty{})
			r.Must(err, "honest state")
			last := model[k]
			if len(last) == 0 || last[len(last)-1].tx != st.TxId {
				if e, err := rawc.Get(hctx, &schema.KeyRequest{Key: []byte(k)}); err == nil && string(e.Value) == v {
					model[k] = append(model[k], c01bVer{e.Tx, v})
				}
			}
		case w < 7: // verified read of the latest value, directly or through a reference
			if len(model[k]) == 0 {
				continue
			}
			if refs[k] && r.Pct(40) {
				viaRef = true
				what = fmt.Sprintf("VerifiedGet(ref:%s)", k)
				arm()
				gotEntry, opErr = c.VerifiedGet(ctx, []byte("ref:"+k))
				break
			}
			if !refs[k] && r.Pct(25) {
				what = fmt.Sprintf("VerifiedSetReference(ref:%s -> %s)", k, k)
				arm()
				gotHdr, opErr = c.VerifiedSetReference(ctx, []byte("ref:"+k), []byte(k))
				if _, err := rawc.Get(hctx, &schema.KeyRequest{Key: []byte("ref:" + k)}); err == nil {
					refs[k] = true
				}
				break
			}
			what = fmt.Sprintf("VerifiedGet(%s)", k)
			arm()
			gotEntry, opErr = c.VerifiedGet(ctx, []byte(k))
		case w < 8: // verified read at an older transaction
			if len(model[k]) == 0 {
				continue
			}
			ver := model[k][r.Intn(len(model[k]))]
			what = fmt.Sprintf("VerifiedGetAt(%s, tx %d)", k, ver.tx)
			arm()
			gotEntry, opErr = c.VerifiedGetAt(ctx, []byte(k), ver.tx)
		case w < 9: // verified transaction
			st, err := rawc.CurrentState(hctx, &emptypb.Empty{})
			r.Must(err, "honest state")
			if st.TxId == 0 {
				continue
			}
			id := 1 + uint64(r.Intn(int(st.TxId)))
			what = fmt.Sprintf("VerifiedTxByID(%d)", id)
			arm()
			gotTx, opErr = c.VerifiedTxByID(ctx, id)
		default: // the client restarts and keeps its state directory
			if who != curName {
				continue
			}
			cur.CloseSession(ctx)
			cur = newClient(curName)
			r.Logf("client %s restarted", curName)
			continue
		}
		wasTampered := tamper && tam.what != ""
		tam.armed = false
		r.Logf("%s %s tampered=%v -> err=%v", who, what, wasTampered, opErr)
		if !wasTampered {
			if opErr != nil {
				r.Violation("honest-response-rejected", "", "client %s: %s failed although nothing was altered: %v", who, what, opErr)
			}
		} else {
			tampered++
			if opErr != nil {
				rejected++
				trusted(c, who, what+" [rejected: "+tam.what+"]")
				continue
			}
		}
		// accepted: it must be exactly what the honest server holds
		alt := ""
		if wasTampered {
			alt = " although the response was altered (" + tam.what + ")"
		}
		switch {
		case gotEntry != nil:
			var he *schema.Entry
			var err error
			if viaRef {
				he, err = rawc.Get(hctx, &schema.KeyRequest{Key: []byte("ref:" + k)})
				if err == nil && (gotEntry.ReferencedBy == nil || he.ReferencedBy == nil || !bytes.Equal(gotEntry.ReferencedBy.Key, []byte("ref:"+k)) ||
					gotEntry.ReferencedBy.Tx != he.ReferencedBy.Tx || gotEntry.ReferencedBy.AtTx != he.ReferencedBy.AtTx) {
					r.Violation("forged-response-verified", "reference", "client %s: %s verified reference %v but the honest server holds %v%s", who, what, gotEntry.ReferencedBy, he.ReferencedBy, alt)
				}
			} else if strings.HasPrefix(what, "VerifiedGetAt") {
				var tx uint64
				fmt.Sscanf(what[strings.Index(what, "tx ")+3:], "%d", &tx)
				he, err = rawc.Get(hctx, &schema.KeyRequest{Key: []byte(k), AtTx: tx})
			} else {
				he, err = rawc.Get(hctx, &schema.KeyRequest{Key: gotEntry.Key, AtTx: gotEntry.Tx})
				// (freshness is not claimed: an authentic but older version, e.g. a replayed
				// response, is part of the history and carries valid proofs)
				_ = he
			}
			if err != nil {
				r.Violation("forged-response-verified", "entry-unknown", "client %s: %s verified an entry (key %q, tx %d) that the honest server does not hold (%v)%s", who, what, gotEntry.Key, gotEntry.Tx, err, alt)
			}
			if viaRef && bytes.Equal(gotEntry.Key, he.Key) && (!bytes.Equal(gotEntry.Value, he.Value) || gotEntry.Tx != he.Tx || !proto.Equal(gotEntry.Metadata, he.Metadata)) {
				// the proof of a read through a reference covers the reference (its key, the
				// key it points to, atTx) only
				r.Finding("forged-response-verified", "C01:referenced-value-not-authenticated", "client %s: %s verified (key %q, value %q, tx %d, md %v) but the honest server holds (value %q, tx %d, md %v)%s: nothing in the response authenticates the value, transaction id and metadata of the referenced entry", who, what, gotEntry.Key, gotEntry.Value, gotEntry.Tx, gotEntry.Metadata, he.Value, he.Tx, he.Metadata, alt)
				r.EndRun()
			}
			if !bytes.Equal(gotEntry.Key, []byte(k)) || !bytes.Equal(gotEntry.Key, he.Key) || !bytes.Equal(gotEntry.Value, he.Value) || gotEntry.Tx != he.Tx || !proto.Equal(gotEntry.Metadata, he.Metadata) {
				r.Violation("forged-response-verified", "entry", "client %s: %s verified (key %q, value %q, tx %d, md %v) but the honest server holds (key %q, value %q, tx %d, md %v)%s", who, what, gotEntry.Key, gotEntry.Value, gotEntry.Tx, gotEntry.Metadata, he.Key, he.Value, he.Tx, he.Metadata, alt)
			}
		case gotTx != nil:
			ht, err := rawc.TxById(hctx, &schema.TxRequest{Tx: gotTx.Header.Id})
			if err != nil {
				r.Violation("forged-response-verified", "tx-unknown", "client %s: %s verified tx %d which the honest server cannot return (%v)%s", who, what, gotTx.Header.Id, err, alt)
			}
			var want uint64
			fmt.Sscanf(what, "VerifiedTxByID(%d)", &want)
			same := gotTx.Header.Id == want && proto.Equal(gotTx.Header, ht.Header) && len(gotTx.Entries) == len(ht.Entries)
			for j := 0; same && j < len(ht.Entries); j++ {
				// (the client strips the key-space prefix byte from the keys it returns)
				same = bytes.Equal(gotTx.Entries[j].Key, ht.Entries[j].Key[1:]) && bytes.Equal(gotTx.Entries[j].HValue, ht.Entries[j].HValue) && proto.Equal(gotTx.Entries[j].Metadata, ht.Entries[j].Metadata)
			}
			if !same {
				r.Violation("forged-response-verified", "tx", "client %s: %s verified %v but the honest server holds %v%s", who, what, gotTx, ht, alt)
			}
		case gotHdr != nil:
			ht, err := rawc.TxById(hctx, &schema.TxRequest{Tx: gotHdr.Id})
			if err != nil || !proto.Equal(gotHdr, ht.Header) {
				r.Violation("forged-response-verified", "header", "client %s: %s verified header %v, the honest server holds %v (%v)%s", who, what, gotHdr, ht.GetHeader(), err, alt)
			}
		}
		if wasTampered {
			harmless++
		}
		trusted(c, who, what)
	}
	// document proofs: pkg/verification.VerifyDocument against a state kept here
	docProofs := 0
	if r.Pct(60) {
		tconn, err := grpc.NewClient("passthrough:///bufnet", dialer, grpc.WithTransportCredentials(insecure.NewCredentials()), grpc.WithChainUnaryInterceptor(tam.intercept))
		r.Must(err, "dial (documents)")
		defer tconn.Close()
		dhonest := protomodel.NewDocumentServiceClient(raw)
		dtamper := protomodel.NewDocumentServiceClient(tconn)
		_, err = dhonest.CreateCollection(hctx, &protomodel.CreateCollectionRequest{Name: "c1", Fields: []*protomodel.Field{{Name: "n", Type: protomodel.FieldType_INTEGER}}})
		r.Must(err, "CreateCollection")
		nDocs := 2 + r.Intn(3)
		for i := 0; i < nDocs; i++ {
			d, _ := structpb.NewStruct(map[string]interface{}{"n": i, "tag": fmt.Sprintf("doc-%d", i)})
			_, err := dhonest.InsertDocuments(hctx, &protomodel.InsertDocumentsRequest{CollectionName: "c1", Documents: []*structpb.Struct{d}})
			r.Must(err, "InsertDocuments")
			if r.Bool() {
				// unrelated transactions between the documents
				rawc.Set(hctx, &schema.SetRequest{KVs: []*schema.KeyValue{{Key: []byte("filler"), Value: []byte{byte(i)}}}})
			}
		}
		sr, err := dhonest.SearchDocuments(hctx, &protomodel.SearchDocumentsRequest{Query: &protomodel.Query{CollectionName: "c1"}, Page: 1, PageSize: 20})
		r.Must(err, "SearchDocuments")
		if len(sr.Revisions) != nDocs {
			r.Violation("honest-read", "", "SearchDocuments returned %d documents, %d were inserted", len(sr.Revisions), nDocs)
		}
		var known *schema.ImmutableState
		for round := 0; round < 3+r.Intn(5); round++ {
			rev := sr.Revisions[r.Intn(len(sr.Revisions))]
			id := rev.Document.Fields["_id"].GetStringValue()
			since := uint64(0)
			if known != nil {
				since = known.TxId
			}
			tamper := known != nil && r.Pct(35)
			if tamper {
				tam.armed, tam.what = true, ""
			}
			proof, perr := dtamper.ProofDocument(hctx, &protomodel.ProofDocumentRequest{CollectionName: "c1", DocumentId: id, ProofSinceTransactionId: since})
			wasTampered := tamper && tam.what != ""
			tam.armed = false
			what := fmt.Sprintf("ProofDocument(%s, since tx %d)", rev.Document.Fields["tag"].GetStringValue(), since)
			if perr != nil {
				r.Violation("honest-response-rejected", "document-proof", "%s failed on the honest server: %v", what, perr)
			}
			var ns *schema.ImmutableState
			var verr error
			pv, stack := r.Catch(func() { ns, verr = verification.VerifyDocument(ctx, proof, rev.Document, known, nil) })
			if pv != nil {
				r.Violation("panic", "", "VerifyDocument panicked (%s, tampered=%v %s): %v\n%s", what, wasTampered, tam.what, pv, stack)
			}
			r.Logf("%s tampered=%v -> %v", what, wasTampered, verr)
			docProofs++
			if !wasTampered && verr != nil {
				r.Violation("honest-response-rejected", "document-proof", "%s: the honest proof does not verify against the known state (tx %d): %v", what, since, verr)
			}
			if wasTampered {
				tampered++
				if verr != nil {
					rejected++
					continue
				}
				harmless++
			}
			// accepted: the new state must be a state of the honest server and extend the known one
			h := honestAlh(ns.TxId)
			if !bytes.Equal(ns.TxHash, h[:]) || (known != nil && ns.TxId < known.TxId) {
				alt := ""
				if wasTampered {
					alt = " although the response was altered (" + tam.what + ")"
				}
				r.Violation("forged-state-trusted", "document-proof", "%s verified and yields state (tx %d, %x); the honest server's accumulated hash of tx %d is %x, the known state was tx %d%s", what, ns.TxId, ns.TxHash, ns.TxId, h, since, alt)
			}
			known = ns
		}
	}

	// SQL row proofs: the client's VerifyRow against rows the honest server returned — or rows
	// altered on the way — with the same adversary on the VerifiableSQLGet response
	rowProofs := 0
	if r.Pct(50) {
		exec := func(q string) {
			if _, err := rawc.SQLExec(hctx, &schema.SQLExecRequest{Sql: q}); err != nil {
				r.Violation("honest-write", "", "SQLExec(%s) failed on the honest server: %v", q, err)
			}
		}
		exec("CREATE TABLE t1 (id INTEGER, a INTEGER, b INTEGER, s VARCHAR[24], f BOOLEAN, PRIMARY KEY id)")
		nRows := 2 + r.Intn(3)
		for i := 1; i <= nRows; i++ {
			if r.Pct(30) {
				exec(fmt.Sprintf("INSERT INTO t1 (id, a, b, f) VALUES (%d, %d, %d, %v)", i, 10*i+1, 10*i+2, i%2 == 0))
			} else {
				exec(fmt.Sprintf("INSERT INTO t1 (id, a, b, s, f) VALUES (%d, %d, %d, 'row-%d', %v)", i, 10*i+1, 10*i+2, i, i%2 == 0))
			}
			if r.Bool() {
				rawc.Set(hctx, &schema.SetRequest{KVs: []*schema.KeyValue{{Key: []byte("filler"), Value: []byte{byte(i)}}}})
			}
			if r.Pct(30) {
				exec(fmt.Sprintf("UPDATE t1 SET b = %d WHERE id = %d", 1000+i, 1+r.Intn(i)))
			}
		}
		for round := 0; round < 3+r.Intn(5); round++ {
			qr, err := rawc.UnarySQLQuery(hctx, &schema.SQLQueryRequest{Sql: "SELECT id, a, b, s, f FROM t1"})
			r.Must(err, "SQLQuery")
			if len(qr.Rows) != nRows {
				r.Violation("honest-read", "", "SELECT returned %d rows, %d were inserted", len(qr.Rows), nRows)
			}
			row := proto.Clone(qr.Rows[r.Intn(len(qr.Rows))]).(*schema.Row)
			pk := []*schema.SQLValue{row.Values[0]}
			altered := ""
			coordinated := false
			if r.Pct(45) {
				switch r.Intn(4) {
				case 0:
					row.Values[1] = &schema.SQLValue{Value: &schema.SQLValue_N{N: row.Values[1].GetN() + 1}}
					altered = "column a increased by 1"
				case 1:
					row.Values[1], row.Values[2] = row.Values[2], row.Values[1]
					altered = "values of a and b swapped"
					coordinated = r.Pct(50)
				case 2:
					row.Values[3] = &schema.SQLValue{Value: &schema.SQLValue_S{S: row.Values[3].GetS() + "!"}}
					altered = "column s changed (a NULL becomes a string)"
				default:
					row.Values[4] = &schema.SQLValue{Value: &schema.SQLValue_B{B: !row.Values[4].GetB()}}
					altered = "column f negated"
				}
			}
			tamper := trustedTx(cur) > 0 && r.Pct(35) && !coordinated
			if tamper {
				tam.armed, tam.what = true, ""
			}
			if coordinated {
				// the server that altered the row also adjusts the (unproven) description of the
				// table it sends along: the ids of a and b change places
				tam.swapCols = [2]string{row.Columns[1], row.Columns[2]}
			}
			var verr error
			pv, stack := r.Catch(func() { verr = cur.VerifyRow(ctx, row, "t1", pk) })
			wasTampered := tamper && tam.what != ""
			tam.armed = false
			tam.swapCols = [2]string{}
			what := fmt.Sprintf("VerifyRow(t1, id=%d)", pk[0].GetN())
			if pv != nil {
				r.Violation("panic", "", "%s panicked (row altered: %q, response altered: %v %s): %v\n%s", what, altered, wasTampered, tam.what, pv, stack)
			}
			r.Logf("%s row-altered=%q coordinated=%v tampered=%v %s -> %v", what, altered, coordinated, wasTampered, tam.what, verr)
			rowProofs++
			if altered == "" && !wasTampered && verr != nil {
				r.Violation("honest-response-rejected", "row-proof", "%s: the row the honest server returned does not verify: %v", what, verr)
			}
			if wasTampered || altered != "" {
				tampered++
				if verr != nil {
					rejected++
					trusted(cur, curName, what+" [rejected]")
					continue
				}
				if altered == "" {
					harmless++
				}
			}
			if altered != "" {
				if coordinated {
					r.Finding("forged-response-verified", "C01:sql-row-column-mapping-not-authenticated", "%s verified a row that is not in the history (%s: %v) because the response's ColIdsByName had the ids of the two columns exchanged: the column-name-to-id mapping (like the column types and the key column ids) comes from the server without any proof", what, altered, row)
					r.EndRun()
				}
				r.Violation("forged-response-verified", "row", "%s verified a row that is not in the history (%s: %v; response altered: %v %s)", what, altered, row, wasTampered, tam.what)
			}
			trusted(cur, curName, what)
		}
	}
	r.Sig("c01b", nOps, tampered > 0, rejected > 0, harmless > 0, docProofs > 0, rowProofs > 0)
	r.Sample(map[string]interface{}{"layer": "client/server", "operations": nOps, "responses_altered": tampered, "altered_rejected": rejected, "altered_but_result_identical": harmless})
	if tampered > 0 {
		r.Fault("response-altered")
	}
}
