package checks

import (
	"context"
	"errors"
	"fmt"
	"sort"
	"strings"

	"github.com/codenotary/immudb/embedded/sql"
	"github.com/codenotary/immudb/embedded/store"

	"verifsim/simcore"
)

// Shared SQL harness for C11, C12, C13: a real sql.Engine over the simulated
// store; indexes are store indexes filled asynchronously by scheduled indexer
// tasks, sessions are tasks.

type sqlEnv struct {
	r   *simcore.Run
	se  *storeEnv
	eng *sql.Engine

	lateIndex bool // a unique index is created while sessions are running
}

func newSQLEnv(r *simcore.Run, dirName string) *sqlEnv {
	cfg := genStCfg(r, false)
	cfg.Comp = 0
	cfg.Prealloc = false
	cfg.HdrVersion = 1
	cfg.MaxConc = 30
	cfg.MaxActive = 1000
	cfg.FileSize = r.Pick(1<<20, 1<<16, 4096)
	cfg.IdxNodeSize = 4096
	cfg.sig(r)
	r.Logf("cfg %+v", cfg)
	e := newStoreEnv(r, cfg, r.Dir(dirName))
	s := &sqlEnv{r: r, se: e}
	if err := s.open(); err != nil {
		r.Violation("open-new", "", "cannot open the SQL engine: %v", err)
	}
	return s
}

func (s *sqlEnv) open() error {
	opts := s.se.cfg.options().WithMultiIndexing(true).WithMaxKeyLen(256).WithMaxValueLen(4096).WithMaxTxEntries(64)
	var st *store.ImmuStore
	var err error
	pv, stack := s.r.Catch(func() { st, err = store.Open(s.se.dir, opts) })
	if pv != nil {
		s.r.Violation("panic", "", "store.Open panicked: %v\n%s", pv, stack)
	}
	if err != nil {
		return err
	}
	s.se.st = st
	s.r.Defer(func() { st.Close() })
	eng, err := sql.NewEngine(st, sql.DefaultOptions().WithPrefix([]byte("sql")))
	if err != nil {
		return err
	}
	s.eng = eng
	return nil
}

func (s *sqlEnv) reopen() {
	if err := s.se.st.Close(); err != nil {
		s.r.Violation("close", "", "Close failed: %v", err)
	}
	if err := s.open(); err != nil {
		s.r.Violation("reopen", "", "reopening the SQL engine failed: %v", err)
	}
	s.r.Probe("sql-restart")
}

// exec runs a statement (autocommit when tx == nil).
func (s *sqlEnv) exec(tx *sql.SQLTx, q string) (ntx *sql.SQLTx, committed []*sql.SQLTx, err error) {
	pv, stack := s.r.Catch(func() { ntx, committed, err = s.eng.Exec(context.Background(), tx, q, nil) })
	if pv != nil {
		s.r.Violation("panic", "", "Exec(%q) panicked: %v\n%s", q, pv, stack)
	}
	return
}

func (s *sqlEnv) mustExec(q string) {
	if _, _, err := s.exec(nil, q); err != nil {
		s.r.Violation("ddl", "", "%q failed: %v", q, err)
	}
}

// query returns the rows rendered as strings ("NULL" for nulls).
func (s *sqlEnv) query(tx *sql.SQLTx, q string) (rows [][]string, err error) {
	pv, stack := s.r.Catch(func() {
		var rd sql.RowReader
		rd, err = s.eng.Query(context.Background(), tx, q, nil)
		if err != nil {
			return
		}
		defer rd.Close()
		for {
			row, rerr := rd.Read(context.Background())
			if errors.Is(rerr, sql.ErrNoMoreRows) {
				return
			}
			if rerr != nil {
				err = rerr
				return
			}
			var out []string
			for _, v := range row.ValuesByPosition {
				if v.IsNull() {
					out = append(out, "NULL")
				} else {
					out = append(out, fmt.Sprint(v.RawValue()))
				}
			}
			rows = append(rows, out)
		}
	})
	if pv != nil {
		s.r.Violation("panic", "", "Query(%q) panicked: %v\n%s", q, pv, stack)
	}
	return
}

func rowsKey(rows [][]string) []string {
	out := make([]string, len(rows))
	for i, r := range rows {
		out[i] = strings.Join(r, "|")
	}
	return out
}

func sortedCopy(a []string) []string {
	b := append([]string(nil), a...)
	sort.Strings(b)
	return b
}

func isConstraintErr(err error) bool {
	return errors.Is(err, store.ErrKeyAlreadyExists) || errors.Is(err, sql.ErrNotNullableColumnCannotBeNull) ||
		errors.Is(err, sql.ErrMaxLengthExceeded) || errors.Is(err, sql.ErrCheckConstraintViolation) ||
		errors.Is(err, sql.ErrPKCanNotBeNull) || errors.Is(err, sql.ErrPKCanNotBeUpdated) || strings.Contains(err.Error(), "already exists")
}

func isBenignTxErr(err error) bool {
	return errors.Is(err, store.ErrTxReadConflict) || errors.Is(err, store.ErrMaxConcurrencyLimitExceeded) ||
		errors.Is(err, store.ErrMaxActiveTransactionsLimitExceeded) || strings.Contains(err.Error(), "too many active snapshots") ||
		strings.Contains(err.Error(), "non-transient key to transient") // a statement the store refuses, without effect
}

func mapKeys(m map[string]string) []string {
	out := make([]string, 0, len(m))
	for k := range m {
		out = append(out, k)
	}
	return out
}
