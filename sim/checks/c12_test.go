package checks

import (
	"errors"
	"fmt"
	"strconv"
	"strings"

	"github.com/codenotary/immudb/embedded/sql"

	"verifsim/simcore"
)

// C12 — SQL integrity constraints hold in every reachable state.

func init() {
	register(&simcore.Check{ID: "C12", Bubble: true, Liveness: true, Body: c12Body})
}

func c12Body(r *simcore.Run) {
	s := newSQLEnv(r, "sql-0")
	s.mustExec("CREATE TABLE t (id INTEGER, a INTEGER NOT NULL, b VARCHAR[6], c INTEGER, PRIMARY KEY id, CONSTRAINT c_nonneg CHECK (c IS NULL OR c >= 0))")
	s.mustExec("CREATE TABLE g (id INTEGER AUTO_INCREMENT, a INTEGER, PRIMARY KEY id)")
	// composite unique index, present from the start
	s.mustExec("CREATE TABLE u (id INTEGER, p INTEGER NOT NULL, q INTEGER NOT NULL, PRIMARY KEY id)")
	s.mustExec("CREATE UNIQUE INDEX ON u(p, q)")
	lateIndex := r.Pct(40)
	s.lateIndex = lateIndex
	if !lateIndex {
		s.mustExec("CREATE UNIQUE INDEX ON t(a)")
	}
	s.mustExec("CREATE INDEX ON t(b)")
	// a table whose newest column is dropped and another one added while the sessions run:
	// rows written before keep what they held, the new column is NULL until it is written
	colChurn := r.Pct(50)
	wNewType := []string{"VARCHAR[4]", "VARCHAR[4]", "INTEGER"}[r.Intn(3)]
	wTag := map[string]string{} // id -> value of the new column, as the model has it
	wLive := false              // the new column exists (its ADD COLUMN was committed)
	if colChurn {
		s.mustExec("CREATE TABLE w (id INTEGER, k INTEGER, extra VARCHAR[48], PRIMARY KEY id)")
		for i := 1; i <= 2+r.Intn(2); i++ {
			s.mustExec(fmt.Sprintf("INSERT INTO w (id, k, extra) VALUES (%d, %d, '%s')", i, i, strings.Repeat("e", 40+i)))
			wTag[strconv.Itoa(i)] = "NULL"
		}
	}
	c12WRows := func(what string) {
		if !colChurn || !wLive {
			return
		}
		rows, err := s.query(nil, "SELECT id, k, tag FROM w")
		if err != nil {
			if isBenignTxErr(err) {
				return
			}
			r.Violation("scan-error", "w", "%s: scanning w (column tag was added by a committed ALTER TABLE) failed: %v", what, err)
		}
		if len(rows) != len(wTag) {
			r.Violation("rows-lost", "w", "%s: w holds %d rows, %d were inserted: %v", what, len(rows), len(wTag), rows)
		}
		for _, row := range rows {
			if want, ok := wTag[row[0]]; !ok || row[2] != want {
				r.Violation("column-content", "w", "%s: row id=%s of w holds tag=%q; the column was added after the row was written and the last committed write to it set %q (ok=%v): a value that was never written to that column: %v", what, row[0], row[2], want, ok, rows)
			}
		}
	}
	r.Sched.SetSwitchPct(r.Pick(100, 50, 20))
	nSess := 2 + r.Intn(3)
	per := 2 + r.Intn(8)
	violations := 0
	// every INSERT into g carries a value of a that is used once: the rows of g at the end
	// are exactly the successful committed INSERTs (a plain INSERT never replaces a row)
	gSeq := 0
	gCommitted := map[string]string{}
	gOf := func(q string) string {
		var a int
		if n, _ := fmt.Sscanf(q, "INSERT INTO g (a) VALUES (%d)", &a); n == 1 {
			return strconv.Itoa(a)
		}
		var id int
		if n, _ := fmt.Sscanf(q, "INSERT INTO g (id, a) VALUES (%d, %d)", &id, &a); n == 2 {
			return strconv.Itoa(a)
		}
		return ""
	}
	genStmt := func() string {
		id := r.Intn(6)
		a := strconv.Itoa(r.Intn(6))
		if r.Pct(8) {
			a = "NULL"
		}
		b := []string{"'x'", "'yy'", "'zzzzzz'", "'toolongvalue'", "NULL"}[r.Intn(5)]
		c := []string{"0", "5", "-1", "NULL"}[r.Intn(4)]
		switch r.Intn(15) {
		case 14:
			// a key given explicitly for the AUTO_INCREMENT column: accepted when it is greater than
			// every key of the table, or names an existing row (then the INSERT is a duplicate)
			gSeq++
			return fmt.Sprintf("INSERT INTO g (id, a) VALUES (%d, %d)", 1+r.Intn(10), 1000+gSeq)
		case 10:
			return fmt.Sprintf("INSERT INTO u (id, p, q) VALUES (%d, %d, %d)", id, r.Intn(3), r.Intn(2))
		case 11:
			return fmt.Sprintf("UPSERT INTO u (id, p, q) VALUES (%d, %d, %d)", id, r.Intn(3), r.Intn(2))
		case 12:
			if r.Bool() {
				return fmt.Sprintf("UPDATE u SET p = %d WHERE id = %d", r.Intn(3), id)
			}
			return fmt.Sprintf("UPDATE u SET q = %d WHERE id = %d", r.Intn(2), id)
		case 13:
			return fmt.Sprintf("DELETE FROM u WHERE id = %d", id)
		case 0, 1, 2, 3:
			return fmt.Sprintf("INSERT INTO t (id, a, b, c) VALUES (%d, %s, %s, %s)", id, a, b, c)
		case 4:
			return fmt.Sprintf("UPSERT INTO t (id, a, b, c) VALUES (%d, %s, %s, %s)", id, a, b, c)
		case 5:
			return fmt.Sprintf("INSERT INTO t (id, a, b, c) VALUES (%d, %s, %s, %s) ON CONFLICT DO NOTHING", id, a, b, c)
		case 6:
			return fmt.Sprintf("UPDATE t SET a = %s WHERE id = %d", a, id)
		case 7:
			return fmt.Sprintf("UPDATE t SET c = %s, b = %s WHERE a >= %d", c, b, r.Intn(6))
		case 8:
			return fmt.Sprintf("DELETE FROM t WHERE id = %d", id)
		default:
			gSeq++
			return fmt.Sprintf("INSERT INTO g (a) VALUES (%d)", 1000+gSeq)
		}
	}
	genKeys := map[string]bool{}
	var tasks []*simcore.Task
	for i := 0; i < nSess; i++ {
		name := fmt.Sprintf("s%d", i)
		tasks = append(tasks, r.Sched.Go(name, func() {
			for j := 0; j < per; j++ {
				r.Yield("c12-stmt")
				if r.Pct(35) {
					// multi-statement transaction
					tx, err := s.eng.NewTx(r.Ctx(), sql.DefaultTxOptions().WithExplicitClose(true))
					if err != nil {
						continue
					}
					failed := false
					var gPending []string
					for k := 0; k < 1+r.Intn(4) && !failed; k++ {
						q := genStmt()
						ntx, _, err := s.exec(tx, q)
						r.Logf("%s: [tx] %s -> %v", name, q, err)
						if err == nil && gOf(q) != "" {
							gPending = append(gPending, gOf(q))
						}
						if err != nil {
							if !isConstraintErr(err) && !isBenignTxErr(err) && !errors.Is(err, sql.ErrInvalidValue) {
								if !tx.Closed() {
									tx.Cancel()
								}
								r.Violation("stmt-error", "", "%q failed inside a transaction: %v", q, err)
							}
							if isConstraintErr(err) {
								violations++
							}
							failed = true
							break
						}
						if ntx != nil {
							tx = ntx
						}
						r.Yield("c12-in-tx")
					}
					if failed || r.Pct(15) {
						if !tx.Closed() {
							tx.Cancel()
						}
						continue
					}
					if tx.Closed() {
						continue
					}
					err = tx.Commit(r.Ctx())
					if err != nil && !isBenignTxErr(err) && !isConstraintErr(err) {
						r.Violation("commit-error", "", "COMMIT failed: %v", err)
					}
					if err == nil {
						for _, a := range gPending {
							gCommitted[a] = name + " (transaction)"
						}
						if len(gPending) > 1 {
							r.Probe("c12-several-inserts-into-g-in-one-tx")
						}
					}
					continue
				}
				q := genStmt()
				ntx, _, err := s.exec(nil, q)
				r.Logf("%s: %s -> %v", name, q, err)
				if err != nil {
					if isConstraintErr(err) {
						violations++
						r.Probe("c12-constraint-refused")
					} else if !isBenignTxErr(err) && !errors.Is(err, sql.ErrInvalidValue) {
						r.Violation("stmt-error", "", "%q failed: %v", q, err)
					}
					continue
				}
				if a := gOf(q); a != "" {
					gCommitted[a] = name
				}
				if ntx != nil {
					for tbl, pk := range ntx.LastInsertedPKs() {
						if tbl == "g" {
							k := fmt.Sprint(pk)
							if genKeys[k] {
								r.Violation("auto-increment-reused", "", "auto-generated key %d of table g was handed out twice", pk)
							}
							genKeys[k] = true
						}
					}
				}
			}
		}))
	}
	if lateIndex {
		tasks = append(tasks, r.Sched.Go("ddl", func() {
			r.Yield("c12-ddl")
			_, _, err := s.exec(nil, "CREATE UNIQUE INDEX ON t(a)")
			r.Logf("ddl: CREATE UNIQUE INDEX ON t(a) -> %v", err)
			if err == nil {
				r.Probe("c12-unique-index-on-populated-table")
			}
		}))
	}
	if colChurn {
		tasks = append(tasks, r.Sched.Go("ddl-w", func() {
			step := func(q string) bool {
				r.Yield("c12-ddl-w")
				_, _, err := s.exec(nil, q)
				r.Logf("ddl-w: %s -> %v", q, err)
				if err != nil && !isBenignTxErr(err) {
					r.Violation("stmt-error", "w", "%q failed: %v", q, err)
				}
				return err == nil
			}
			if !step("ALTER TABLE w DROP COLUMN extra") {
				return
			}
			if r.Bool() {
				if step("INSERT INTO w (id, k) VALUES (7, 7)") {
					wTag["7"] = "NULL"
				}
			}
			if r.Pct(30) {
				// another committed catalog change in between
				step("CREATE TABLE w2 (id INTEGER, PRIMARY KEY id)")
			}
			if !step("ALTER TABLE w ADD COLUMN tag " + wNewType) {
				return
			}
			wLive = true
			r.Probe("c12-column-dropped-and-added")
			c12WRows("right after ALTER TABLE ADD COLUMN")
			vals := []string{"'ab'", "'cd'"}
			if wNewType == "INTEGER" {
				vals = []string{"11", "22"}
			}
			for i := 0; i < 1+r.Intn(3); i++ {
				id := strconv.Itoa(1 + r.Intn(3))
				v := vals[r.Intn(2)]
				if _, known := wTag[id]; known && step(fmt.Sprintf("UPDATE w SET tag = %s WHERE id = %s", v, id)) {
					wTag[id] = strings.Trim(v, "'")
				}
				if r.Pct(30) && wNewType != "INTEGER" {
					r.Yield("c12-ddl-w")
					if _, _, err := s.exec(nil, "INSERT INTO w (id, k, tag) VALUES (9, 9, 'toolong')"); err == nil {
						r.Violation("max-length", "w", "INSERT of 'toolong' into the VARCHAR[4] column tag of w succeeded")
					} else if !errors.Is(err, sql.ErrMaxLengthExceeded) && !isBenignTxErr(err) {
						r.Violation("stmt-error", "w", "INSERT of a too long value into w.tag failed with %v, not with the length error", err)
					}
				}
				c12WRows("after a write to the new column")
			}
		}))
	}
	if r.Pct(40) {
		// DDL that is rolled back leaves no trace: the constraint stays in force
		tasks = append(tasks, r.Sched.Go("ddl-rollback", func() {
			for i := 0; i < 1+r.Intn(2); i++ {
				r.Yield("c12-ddl-rollback")
				tx, err := s.eng.NewTx(r.Ctx(), sql.DefaultTxOptions().WithExplicitClose(true))
				if err != nil {
					continue
				}
				ntx, _, err := s.exec(tx, "ALTER TABLE t DROP CONSTRAINT c_nonneg")
				r.Logf("ddl-rollback: DROP CONSTRAINT in a transaction -> %v", err)
				if ntx != nil {
					tx = ntx
				}
				r.Yield("c12-ddl-rollback-open")
				if !tx.Closed() {
					tx.Cancel()
				}
				r.Probe("c12-ddl-rolled-back")
			}
		}))
	}
	tasks = append(tasks, r.Sched.Go("checker", func() {
		for i := 0; i < 1+r.Intn(4); i++ {
			r.Yield("c12-check")
			c12Invariants(s, "during the workload")
		}
	}))
	for _, t := range tasks {
		t.Join()
	}
	c12Invariants(s, "after the workload")
	c12GRows := func(what string) {
		rows, err := s.query(nil, "SELECT id, a FROM g")
		if err != nil {
			r.Violation("scan-error", "", "%s: scanning g failed: %v", what, err)
		}
		held := map[string]bool{}
		for _, row := range rows {
			held[row[1]] = true
			if _, ok := gCommitted[row[1]]; !ok {
				r.Violation("uncommitted-row", "", "%s: g holds row (id=%s, a=%s) but no INSERT with that value was committed: %v", what, row[0], row[1], rows)
			}
		}
		for _, a := range sortedCopy(mapKeys(gCommitted)) {
			if !held[a] {
				r.Violation("insert-lost", "", "%s: the INSERT into g with a=%s succeeded and was committed by %s, but g holds no such row (a later INSERT took its key?): %v", what, a, gCommitted[a], rows)
			}
		}
	}
	c12GRows("after the workload")
	c12WRows("after the workload")
	if r.Pct(40) {
		s.reopen()
		c12Invariants(s, "after restart")
		c12GRows("after restart")
		c12WRows("after restart")
	}
	s.se.st.Close()
	r.Sig("c12", nSess, per, violations > 0, lateIndex)
	r.Sample(map[string]interface{}{"sessions": nSess, "statements_per_session": per, "constraint_refusals": violations, "unique_index_created_late": lateIndex})
}

// c12Invariants scans the committed tables and checks every declared constraint.
func c12Invariants(s *sqlEnv, what string) {
	r := s.r
	rows, err := s.query(nil, "SELECT id, a, b, c FROM t")
	if err != nil {
		if isBenignTxErr(err) {
			return
		}
		r.Violation("scan-error", "", "%s: scanning t failed: %v", what, err)
	}
	ids := map[string]bool{}
	as := map[string]string{}
	for _, row := range rows {
		id, a, b, c := row[0], row[1], row[2], row[3]
		if ids[id] {
			r.Violation("pk-duplicate", "", "%s: primary key %s appears twice in t: %v", what, id, rows)
		}
		ids[id] = true
		if a == "NULL" {
			r.Violation("not-null", "", "%s: row id=%s holds NULL in NOT NULL column a", what, id)
		}
		if b != "NULL" && len(b) > 6 {
			r.Violation("max-length", "", "%s: row id=%s holds %q in VARCHAR[6] column b", what, id, b)
		}
		if c != "NULL" {
			if v, _ := strconv.Atoi(c); v < 0 {
				r.Violation("check-constraint", "", "%s: row id=%s holds c=%s, violating CHECK (c IS NULL OR c >= 0)", what, id, c)
			}
		}
		if other, dup := as[a]; dup && s.hasUniqueIndex() && s.lateIndex {
			r.Finding("unique-duplicate", "C12:unique-index-created-while-writers-run", "%s: rows id=%s and id=%s both hold a=%s: the unique index on a was created by one session while other sessions had transactions in flight that were started under the old catalog, so they inserted without the uniqueness check and still committed: %v", what, other, id, a, rows)
			r.EndRun()
		}
		if other, dup := as[a]; dup && s.hasUniqueIndex() {
			r.Violation("unique-duplicate", "", "%s: rows id=%s and id=%s both hold a=%s although a unique index on a exists: %v", what, other, id, a, rows)
		}
		as[a] = id
	}
	// index <-> table agreement
	if s.hasUniqueIndex() {
		irows, err := s.query(nil, "SELECT id, a, b, c FROM t USE INDEX ON (a)")
		if err == nil && fmt.Sprint(sortedCopy(rowsKey(irows))) != fmt.Sprint(sortedCopy(rowsKey(rows))) {
			// rows may have changed between the two scans while writers run
			if what != "during the workload" {
				r.Violation("index-table-mismatch", "", "%s: scan through the unique index on a returns %v, scan through the primary key %v", what, irows, rows)
			}
		}
	}
	brows, err := s.query(nil, "SELECT id, a, b, c FROM t USE INDEX ON (b)")
	if err == nil && what != "during the workload" && fmt.Sprint(sortedCopy(rowsKey(brows))) != fmt.Sprint(sortedCopy(rowsKey(rows))) {
		r.Violation("index-table-mismatch", "", "%s: scan through the index on b returns %v, scan through the primary key %v", what, brows, rows)
	}
	urows, err := s.query(nil, "SELECT id, p, q FROM u")
	if err == nil {
		pq := map[string]string{}
		for _, row := range urows {
			k := row[1] + "," + row[2]
			if other, dup := pq[k]; dup {
				r.Violation("unique-duplicate", "unique-duplicate-composite", "%s: rows id=%s and id=%s of u both hold (p,q)=(%s) although a unique index on (p, q) exists: %v", what, other, row[0], k, urows)
			}
			pq[k] = row[0]
		}
		irows, err := s.query(nil, "SELECT id, p, q FROM u USE INDEX ON (p, q)")
		if err == nil && what != "during the workload" && fmt.Sprint(sortedCopy(rowsKey(irows))) != fmt.Sprint(sortedCopy(rowsKey(urows))) {
			r.Violation("index-table-mismatch", "", "%s: scan of u through the unique index on (p, q) returns %v, scan through the primary key %v", what, irows, urows)
		}
	} else if !isBenignTxErr(err) {
		r.Violation("scan-error", "", "%s: scanning u failed: %v", what, err)
	}
	grows, err := s.query(nil, "SELECT id FROM g")
	if err == nil {
		seen := map[string]bool{}
		for _, row := range grows {
			if seen[row[0]] {
				r.Violation("pk-duplicate", "", "%s: auto-generated key %s appears twice in g", what, row[0])
			}
			seen[row[0]] = true
		}
	}
}

func (s *sqlEnv) hasUniqueIndex() bool {
	rows, err := s.query(nil, "SELECT id FROM t USE INDEX ON (a) LIMIT 1")
	_ = rows
	return err == nil
}
