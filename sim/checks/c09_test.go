package checks

import (
	"encoding/hex"
	"bytes"
	"context"
	"crypto/sha256"
	"encoding/binary"
	"errors"
	"fmt"
	"os"
	"os/exec"
	"path/filepath"
	"sort"
	"strings"
	"time"

	"github.com/codenotary/immudb/embedded/store"

	"verifsim/simcore"
)

// C09 — corruption of stored data is detected, never served as valid.
//
// Fault enumeration: a small store is built and closed; then bits of the
// bytes that hold committed transactions (tx log) and their values (value
// logs) are flipped — at rest in a copy of the directory, or live through the
// read hook while the store is open — and every integrity-checked read must
// return an error or exactly the pristine content, never anything else, never
// panic, never hang.

func init() {
	register(&simcore.Check{ID: "C09", Bubble: true, Body: c09Body})
}

type c09File struct {
	rel  string
	base int64 // offset of the first data byte (after the metadata header)
	size int64
}

func c09Body(r *simcore.Run) {
	cfg := genStCfg(r, false)
	cfg.Comp = 0
	cfg.Prealloc = false
	cfg.FileSize = r.Pick(1<<20, 4096, 512, 256)
	cfg.TxCache = r.Pick(1000, 1, 4)
	cfg.sig(r)
	r.Logf("cfg %+v", cfg)
	dir := r.Dir("c09-src")
	e := newStoreEnv(r, cfg, dir)
	if err := e.open(); err != nil {
		r.Violation("open-new", "", "cannot open a new store: %v", err)
	}
	// build a small history sequentially
	ntx := 2 + r.Intn(9)
	ctx := context.Background()
	for i := 0; i < ntx; i++ {
		tx, err := e.st.NewTx(ctx, store.DefaultTxOptions())
		r.Must(err, "newtx")
		entries, err := e.genWrites("w", tx, 4, r.Pick(8, 40, 300))
		r.Must(err, "set")
		if cfg.HdrVersion == 1 && r.Pct(20) {
			md := store.NewTxMetadata()
			md.WithExtra([]byte(fmt.Sprintf("extra-%d", i)))
			tx.WithMetadata(md)
		}
		hdr, err := tx.Commit(ctx)
		if err != nil {
			r.Violation("commit", "", "commit %d failed: %v", i, err)
		}
		e.ack(hdr, entries)
		r.Yield("c09-build")
	}
	n := e.verifyHistory("pristine", true)
	// pristine exports
	exports := map[uint64][]byte{}
	tmp := store.NewTx(16, 64)
	for id := uint64(1); id <= n; id++ {
		bs, err := e.st.ExportTx(id, false, false, tmp)
		if err != nil {
			r.Violation("export", "", "ExportTx(%d) on the pristine store failed: %v", id, err)
		}
		exports[id] = append([]byte(nil), bs...)
	}
	if err := e.st.Close(); err != nil {
		r.Violation("close", "", "Close failed: %v", err)
	}

	// files that hold committed transactions and their values
	var files []c09File
	filepath.Walk(dir, func(p string, info os.FileInfo, err error) error {
		if err != nil || info.IsDir() {
			return nil
		}
		rel, _ := filepath.Rel(dir, p)
		if !(strings.HasPrefix(rel, "tx"+string(filepath.Separator)) || strings.HasPrefix(rel, "val_")) {
			return nil
		}
		bs, err := os.ReadFile(p)
		if err != nil || len(bs) < 4 {
			return nil
		}
		base := int64(4 + binary.BigEndian.Uint32(bs[:4]))
		if base < int64(len(bs)) {
			files = append(files, c09File{rel: rel, base: base, size: int64(len(bs))})
		}
		return nil
	})
	sort.Slice(files, func(i, j int) bool { return files[i].rel < files[j].rel })
	if len(files) == 0 {
		r.Trouble("no data files found")
	}

	nCases := 6
	if r.Tier == "thorough" {
		nCases = 20
	}
	var samples []string
	for c := 0; c < nCases && !r.Failed(); c++ {
		live := r.Pct(25)
		dst := r.Dir(fmt.Sprintf("c09-%d", c%3))
		if err := exec.Command("cp", "-r", dir+"/.", dst).Run(); err != nil {
			r.Trouble("copy store: %v", err)
		}
		dropIndex := r.Pct(40)
		if dropIndex {
			os.RemoveAll(filepath.Join(dst, "index"))
		}
		what := ""
		if !live {
			nflips := r.Pick(1, 1, 1, 2, 3)
			for f := 0; f < nflips; f++ {
				fl := files[r.Intn(len(files))]
				off := fl.base + int64(r.Intn(int(fl.size-fl.base)))
				bit := r.Intn(8)
				if r.Pct(30) {
					// aimed at the fields next to an entry's key in the tx log (value length
					// and offset, which no digest covers, and the value digest), half of the
					// time at a bit that is set: a flip there can zero a small field
					id := 1 + uint64(r.Intn(int(n)))
					if lt := e.led[id]; lt != nil && len(lt.Entries) > 0 {
						le := lt.Entries[r.Intn(len(lt.Entries))]
						pat := append([]byte{byte(len(le.Key) >> 8), byte(len(le.Key))}, le.Key...)
						for _, cand := range files {
							if !strings.HasPrefix(cand.rel, "tx"+string(filepath.Separator)) {
								continue
							}
							bs, err := os.ReadFile(filepath.Join(dst, cand.rel))
							if err != nil {
								continue
							}
							if at := bytes.Index(bs[cand.base:], pat); at >= 0 {
								field := cand.base + int64(at+len(pat)) // entry: metadata, key, then value length (4), offset (8), digest (32)
								// not the two high bytes of the length: a length of gigabytes makes
								// the reader allocate that much before it can notice (see the note
								// of this check), which only slows the simulation down
								o := field + 2 + int64(r.Intn(10))
								if o < cand.size {
									fl, off = cand, o
									if r.Bool() {
										for b := 0; b < 8; b++ {
											if bs[o]&(1<<uint(b)) != 0 {
												bit = b
											}
										}
									}
									r.Probe("c09-flip-aimed-at-entry-fields")
								}
								break
							}
						}
					}
				}
				p := filepath.Join(dst, fl.rel)
				bs, err := os.ReadFile(p)
				r.Must(err, "read file")
				bs[off] ^= 1 << uint(bit)
				r.Must(os.WriteFile(p, bs, 0o644), "write file")
				what += fmt.Sprintf("%s@%d bit %d; ", fl.rel, off-fl.base, bit)
				r.Fault("bitflip-at-rest")
				r.Sig("flip", strings.Split(fl.rel, string(filepath.Separator))[0], (off-fl.base)*8+int64(bit))
			}
		} else {
			what = "live read corruption"
		}
		what = fmt.Sprintf("[%s index rebuilt=%v] ", what, dropIndex)
		samples = append(samples, what)
		r.Logf("case %d: %s", c, what)
		c09Probe(r, e, dst, what, n, exports, live)
		r.Yield("c09-case")
	}
	r.Sample(map[string]interface{}{"config": cfg, "transactions": n, "cases": samples})
}

// c09HugeLen: value lengths above it are not handed to the readers (they allocate the
// claimed length first; at gigabytes that takes real seconds and only stalls the run).
const c09HugeLen = 64 << 20

// c09Probe opens the (corrupted) copy and runs every integrity-checked read.
func c09Probe(r *simcore.Run, e *storeEnv, dst, what string, n uint64, exports map[uint64][]byte, live bool) {
	e2 := newStoreEnv(r, e.cfg, dst)
	e2.led = e.led
	if live {
		r.Disk.Attach(dst)
		r.Disk.FlipReadPM = r.Pick(20, 100, 300)
		r.Disk.FaultPaths = []string{"/tx/", "/val_"}
		r.Disk.Armed = true
		defer func() {
			r.Disk.Armed = false
			r.Disk.FlipReadPM = 0
			r.Disk.FaultPaths = nil
			r.Disk.Detach()
		}()
	}
	var st *store.ImmuStore
	var err error
	// in half of the cases the only index is one whose keys are derived from the stored VALUE (as the
	// SQL engine's indexes are); it does not exist in the copy, so it is built from the (altered) log.
	// (An index with the empty prefix next to it would answer every lookup by prefix.)
	mapped := r.Pct(50)
	pv, stack := r.Catch(func() { st, err = store.Open(dst, e.cfg.options().WithMultiIndexing(mapped)) })
	if pv != nil {
		r.Violation("panic", "", "%sstore.Open panicked: %v\n%s", what, pv, stack)
	}
	if err != nil {
		r.Probe("c09-open-refused")
		return // refusing to open is a detection
	}
	defer st.Close()
	if mapped {
		var ierr error
		pv, stack := r.Catch(func() {
			ierr = st.InitIndexing(&store.IndexSpec{TargetPrefix: []byte("m:"), TargetEntryMapper: c09Mapper})
		})
		if pv != nil {
			r.Violation("panic", "", "%sInitIndexing panicked: %v\n%s", what, pv, stack)
		}
		if ierr != nil {
			r.Probe("c09-open-refused")
			return
		}
	}
	served := func(op string, id uint64, format string, args ...interface{}) {
		r.Violation("corrupted-data-served", "", "%s%s(tx %d): "+format, append([]interface{}{what, op, id}, args...)...)
	}
	checkTx := func(op string, id uint64, tx *store.Tx) {
		lt := e.led[id]
		hdr := tx.Header()
		var mdb []byte
		if hdr.Metadata != nil {
			mdb = hdr.Metadata.Bytes()
		}
		if hdr.ID != lt.Hdr.ID || hdr.Ts != lt.Hdr.Ts || hdr.BlTxID != lt.Hdr.BlTxID || hdr.BlRoot != lt.Hdr.BlRoot ||
			hdr.PrevAlh != lt.Hdr.PrevAlh || hdr.Version != lt.Hdr.Version || hdr.NEntries != lt.Hdr.NEntries ||
			hdr.Eh != lt.Hdr.Eh || !bytes.Equal(mdb, lt.MDBytes) || hdr.Alh() != lt.Alh {
			served(op, id, "returned a header that differs from the committed one: %+v, committed %+v", *hdr, lt.Hdr)
		}
		es := tx.Entries()
		if len(es) != len(lt.Entries) {
			served(op, id, "returned %d entries, committed %d", len(es), len(lt.Entries))
		}
		for i, le := range lt.Entries {
			var md []byte
			if es[i].Metadata() != nil {
				md = es[i].Metadata().Bytes()
			}
			if !bytes.Equal(es[i].Key(), le.Key) || !bytes.Equal(md, le.MD) || es[i].HVal() != sha256.Sum256(le.Value) {
				served(op, id, "entry %d differs: key %q md %x vlen %d, committed key %q md %x vlen %d", i, es[i].Key(), md, es[i].VLen(), le.Key, le.MD, len(le.Value))
			}
			if es[i].VLen() != len(le.Value) {
				// the value length (like the value offset) is not covered by any hash
				r.Finding("corrupted-data-served", "C09:value-length-not-authenticated", "%s%s(tx %d): entry %d (%q) is returned with value length %d, committed %d: the length and offset fields of a tx-log entry are not covered by the entry digest, so an altered length passes the integrity check of the transaction (reading the value then fails its own length/hash check)", what, op, id, i, le.Key, es[i].VLen(), len(le.Value))
			}
		}
	}
	cn, _ := st.CommittedAlh()
	if cn > n {
		r.Violation("corrupted-data-served", "", "%sthe store reports %d committed transactions, only %d exist", what, cn, n)
	}
	tx := store.NewTx(16, 64)
	for id := uint64(1); id <= n; id++ {
		lt := e.led[id]
		if e.cfg.VCache > 0 && r.Pct(20) {
			// (only where a value cache exists; an unchecked read of a corrupted length can
			// allocate gigabytes, which is outside this property, so it is kept rare)
			// a read that skips the integrity checks comes first (a replica fetching with
			// SkipIntegrityCheck): whatever it leaves in the caches must not be served to
			// the checked reads that follow
			r.Catch(func() { st.ExportTx(id, false, true, tx) })
			r.Probe("c09-unchecked-read-first")
		}
		// single-entry reads, every entry of the transaction
		for i, le := range lt.Entries {
			var te *store.TxEntry
			pv, stack := r.Catch(func() { te, _, err = st.ReadTxEntry(id, le.Key, false) })
			if pv != nil {
				r.Violation("panic", "", "%sReadTxEntry(tx %d, %q) panicked: %v\n%s", what, id, le.Key, pv, stack)
			}
			if err != nil {
				r.Probe("c09-read-refused")
				continue
			}
			var md []byte
			if te.Metadata() != nil {
				md = te.Metadata().Bytes()
			}
			if !bytes.Equal(te.Key(), le.Key) || !bytes.Equal(md, le.MD) || te.HVal() != sha256.Sum256(le.Value) {
				served("ReadTxEntry", id, "entry %d differs: key %q md %x, committed key %q md %x", i, te.Key(), md, le.Key, le.MD)
			}
		}
		pv, stack := r.Catch(func() { err = st.ReadTx(id, false, tx) })
		if pv != nil {
			r.Violation("panic", "", "%sReadTx(%d) panicked: %v\n%s", what, id, pv, stack)
		}
		if err != nil {
			r.Probe("c09-read-refused")
			continue
		}
		checkTx("ReadTx", id, tx)
		for i, te := range tx.Entries() {
			var val []byte
			if te.VLen() > c09HugeLen {
				// an altered length of hundreds of megabytes: the reader would allocate
				// that much before it can fail (the files hold a few kilobytes); the wrong
				// length itself is already reported by the ReadTx comparison above
				r.Probe("c09-huge-length-not-read")
				continue
			}
			pv, stack := r.Catch(func() { val, err = st.ReadValue(te) })
			if pv != nil {
				r.Violation("panic", "", "%sReadValue(tx %d entry %d) panicked: %v\n%s", what, id, i, pv, stack)
			}
			if err != nil {
				r.Probe("c09-read-refused")
				continue
			}
			if len(val) == 0 && te.VLen() == 0 && len(lt.Entries[i].Value) > 0 {
				r.Finding("corrupted-data-served", "C09:zero-length-bypasses-digest", "%sReadValue(tx %d): entry %d (%q) whose stored length was altered to 0 is served as an empty value although its digest is the one of %q: a zero length skips the value digest check", what, id, i, lt.Entries[i].Key, trunc(lt.Entries[i].Value))
				continue
			}
			if !bytes.Equal(val, lt.Entries[i].Value) {
				served("ReadValue", id, "entry %d (%q) returned %q, committed %q", i, lt.Entries[i].Key, trunc(val), trunc(lt.Entries[i].Value))
			}
		}
		hugeLen := false
		for _, te := range tx.Entries() {
			hugeLen = hugeLen || te.VLen() > c09HugeLen
		}
		if hugeLen {
			r.Probe("c09-huge-length-not-read")
			continue // ExportTx would allocate the claimed length first, like ReadValue
		}
		var bs []byte
		pv, stack = r.Catch(func() { bs, err = st.ExportTx(id, false, false, tx) })
		if pv != nil {
			r.Violation("panic", "", "%sExportTx(%d) panicked: %v\n%s", what, id, pv, stack)
		}
		if err == nil && !bytes.Equal(bs, exports[id]) {
			if why := c09ExportDiffers(bs, exports[id], lt); why != "" {
				served("ExportTx", id, "exported bytes differ from the pristine export: %s", why)
			}
			r.Probe("c09-export-by-digest")
		}
		var hdr *store.TxHeader
		pv, stack = r.Catch(func() { hdr, err = st.ReadTxHeader(id, false, false) })
		if pv != nil {
			r.Violation("panic", "", "%sReadTxHeader(%d) panicked: %v\n%s", what, id, pv, stack)
		}
		if err == nil && hdr.Alh() != lt.Alh {
			served("ReadTxHeader", id, "returned a header whose Alh differs from the committed one")
		}
	}
	// sequential scan
	var rd *store.TxReader
	pv, stack = r.Catch(func() { rd, err = st.NewTxReader(1, false, tx) })
	if pv != nil {
		r.Violation("panic", "", "%sNewTxReader panicked: %v\n%s", what, pv, stack)
	}
	if err == nil {
		for i := uint64(0); i <= n; i++ {
			var t *store.Tx
			pv, stack := r.Catch(func() { t, err = rd.Read() })
			if pv != nil {
				r.Violation("panic", "", "%sTxReader.Read panicked: %v\n%s", what, pv, stack)
			}
			if err != nil {
				break
			}
			if t.Header().ID > n || e.led[t.Header().ID] == nil {
				r.Violation("corrupted-data-served", "", "%sTxReader returned tx %d which does not exist", what, t.Header().ID)
			}
			checkTx("TxReader", t.Header().ID, t)
		}
	}
	// proofs: whatever is produced must be what the pristine store would produce or fail to verify
	if cn >= 2 {
		src, e1 := st.ReadTxHeader(1, false, false)
		tgt, e2h := st.ReadTxHeader(cn, false, false)
		if e1 == nil && e2h == nil {
			var proof *store.DualProof
			pv, stack := r.Catch(func() { proof, err = st.DualProof(src, tgt) })
			if pv != nil {
				r.Violation("panic", "", "%sDualProof panicked: %v\n%s", what, pv, stack)
			}
			if err == nil && store.VerifyDualProof(proof, 1, cn, e.led[1].Alh, e.led[cn].Alh) {
				r.Probe("c09-proof-still-verifies")
			}
		}
	}
	// index: lookups after (re)indexing return committed versions or fail
	wctx, cancel := context.WithTimeout(context.Background(), 10*time.Minute)
	werr := st.WaitForIndexingUpto(wctx, cn)
	cancel()
	if werr != nil {
		r.Probe("c09-indexing-refused")
		return
	}
	if mapped {
		// every key the value-derived index serves must be the mapping of an entry some committed
		// transaction really holds, under that transaction's id
		legit := map[string]map[uint64]bool{}
		for id := uint64(1); id <= cn; id++ {
			for _, le := range e.led[id].Entries {
				if le.NonIndexable {
					continue
				}
				mk, _ := c09Mapper(le.Key, le.Value)
				if legit[string(mk)] == nil {
					legit[string(mk)] = map[uint64]bool{}
				}
				legit[string(mk)][id] = true
			}
		}
		var snap *store.Snapshot
		var serr error
		pv, stack := r.Catch(func() { snap, serr = st.SnapshotMustIncludeTxID(context.Background(), []byte("m:"), cn) })
		if pv != nil {
			r.Violation("panic", "", "%ssnapshot of the value-derived index panicked: %v\n%s", what, pv, stack)
		}
		if serr == nil {
			rd, rerr := snap.NewKeyReader(store.KeyReaderSpec{Prefix: []byte("m:")})
			for rerr == nil {
				var key []byte
				var ref store.ValueRef
				key, ref, rerr = rd.Read(context.Background())
				if rerr != nil {
					break
				}
				if !legit[string(key)][ref.Tx()] {
					rd.Close()
					snap.Close()
					r.Violation("corrupted-data-served", "", "%sthe index built from the log holds key %q for tx %d: no committed entry of that transaction maps to it (the key was derived from altered value bytes)", what, trunc(key), ref.Tx())
				}
				r.Probe("c09-value-derived-index-entry-checked")
			}
			if rd != nil {
				rd.Close()
			}
			snap.Close()
		}
		return
	}
	model, keys := e2ModelFromLedger(e, cn)
	for _, k := range keys {
		vers := model[k]
		var ref store.ValueRef
		pv, stack := r.Catch(func() { ref, err = st.Get(context.Background(), []byte(k)) })
		if pv != nil {
			r.Violation("panic", "", "%sGet(%q) panicked: %v\n%s", what, k, pv, stack)
		}
		if err != nil {
			continue
		}
		var match *kvVersion
		for i := range vers {
			if vers[i].Tx == ref.Tx() {
				match = &vers[i]
			}
		}
		if match == nil {
			r.Violation("corrupted-data-served", "", "%sGet(%q) returned a version of tx %d, which holds no entry for that key", what, k, ref.Tx())
		}
		var val []byte
		if ref.Len() > c09HugeLen {
			r.Probe("c09-huge-length-not-read")
			continue
		}
		pv, stack = r.Catch(func() { val, err = ref.Resolve() })
		if pv != nil {
			r.Violation("panic", "", "%sResolve(%q) panicked: %v\n%s", what, k, pv, stack)
		}
		if err == nil && len(val) == 0 && ref.Len() == 0 && len(match.Value) > 0 {
			r.Finding("corrupted-data-served", "C09:zero-length-bypasses-digest", "%sGet(%q): the version of tx %d whose stored length was altered to 0 resolves to an empty value although it committed %q", what, k, ref.Tx(), trunc(match.Value))
			continue
		}
		if err == nil && !bytes.Equal(val, match.Value) {
			r.Violation("corrupted-data-served", "", "%sGet(%q) resolved to %q, tx %d committed %q", what, k, trunc(val), ref.Tx(), trunc(match.Value))
		}
		if err != nil && !errors.Is(err, store.ErrExpiredEntry) {
			r.Probe("c09-read-refused")
		}
	}
}

// e2ModelFromLedger builds key -> versions from the ledger (ids 1..n).
func e2ModelFromLedger(e *storeEnv, n uint64) (map[string][]kvVersion, []string) {
	m := map[string][]kvVersion{}
	for id := uint64(1); id <= n; id++ {
		lt := e.led[id]
		if lt == nil {
			continue
		}
		for _, le := range lt.Entries {
			if le.NonIndexable {
				continue
			}
			m[string(le.Key)] = append(m[string(le.Key)], kvVersion{Tx: id, Value: le.Value, MD: le.MD, Deleted: le.Deleted, Expires: le.ExpiresAt})
		}
	}
	var keys []string
	for k := range m {
		keys = append(keys, k)
	}
	sort.Strings(keys)
	return m, keys
}

// c09ExportDiffers compares an exported transaction with the pristine export
// logically: header, keys and metadata must be identical; every value must be
// the committed value or, in the by-digest form used for unreadable
// (truncated) values, its sha256. Returns "" if equivalent.
func c09ExportDiffers(got, want []byte, lt *ledTx) string {
	rd := func(b []byte, n int) ([]byte, []byte, bool) {
		if len(b) < n {
			return nil, nil, false
		}
		return b[:n], b[n:], true
	}
	g, w := got, want
	gl, g, ok1 := rd(g, 4)
	wl, w, ok2 := rd(w, 4)
	if !ok1 || !ok2 || !bytes.Equal(gl, wl) {
		return "header length differs"
	}
	hl := int(binary.BigEndian.Uint32(gl))
	gh, g, ok1 := rd(g, hl)
	wh, w, ok2 := rd(w, hl)
	if !ok1 || !ok2 || !bytes.Equal(gh, wh) {
		return "header differs"
	}
	_ = w
	digests := 0
	for i, le := range lt.Entries {
		kl, rest, ok := rd(g, 2)
		if !ok {
			return "truncated export"
		}
		key, rest, ok := rd(rest, int(binary.BigEndian.Uint16(kl)))
		if !ok || !bytes.Equal(key, le.Key) {
			return fmt.Sprintf("key of entry %d differs", i)
		}
		ml, rest, ok := rd(rest, 2)
		if !ok {
			return "truncated export"
		}
		md, rest, ok := rd(rest, int(binary.BigEndian.Uint16(ml)))
		if !ok || !bytes.Equal(md, le.MD) {
			return fmt.Sprintf("metadata of entry %d differs", i)
		}
		vl, rest, ok := rd(rest, 4)
		if !ok {
			return "truncated export"
		}
		val, rest, ok := rd(rest, int(binary.BigEndian.Uint32(vl)))
		if !ok {
			return "truncated export"
		}
		h := sha256.Sum256(le.Value)
		switch {
		case bytes.Equal(val, le.Value) && !(len(val) == 32 && bytes.Equal(val, h[:])):
		case len(val) == 32 && bytes.Equal(val, h[:]):
			digests++
		default:
			return fmt.Sprintf("value of entry %d (%q) is neither the committed value nor its digest", i, le.Key)
		}
		g = rest
	}
	tl, g, ok := rd(g, 2)
	if !ok || binary.BigEndian.Uint16(tl) != 1 || len(g) != 1 {
		return "malformed trailer"
	}
	if (g[0] == 1) != (digests > 0) && digests != len(lt.Entries) && digests != 0 {
		return "mix of values and digests"
	}
	if g[0] == 0 && digests > 0 {
		return "values replaced by digests without the truncated flag"
	}
	return ""
}

// c09Mapper derives an index key from key and value (value-dependent, like the SQL engine's mappers).
func c09Mapper(key, value []byte) ([]byte, error) {
	out := append([]byte("m:"), key...)
	out = append(out, '/')
	h := sha256.Sum256(value) // every bit of the value matters
	return append(out, []byte(hex.EncodeToString(h[:8]))...), nil
}
