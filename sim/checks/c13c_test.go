package checks

import (
	"context"
	"encoding/binary"
	"fmt"
	"io"
	"net"
	"os"
	"strconv"
	"strings"
	"time"

	"github.com/codenotary/immudb/embedded/logger"
	"github.com/codenotary/immudb/pkg/api/schema"
	pgsrv "github.com/codenotary/immudb/pkg/pgsql/server"
	"github.com/codenotary/immudb/pkg/server"
	"github.com/codenotary/immudb/pkg/server/sessions"
	"google.golang.org/grpc"
	"google.golang.org/grpc/credentials/insecure"
	"google.golang.org/grpc/metadata"
	"google.golang.org/grpc/test/bufconn"

	"verifsim/simcore"
)

// C13, layer C — SQL transactions through the PostgreSQL wire front-end.
//
// A real ImmuServer runs in the bubble together with the real pgsql server of
// pkg/pgsql/server; every pgsql session is served over an in-memory pipe
// (hook SimHandleConn) and authenticates against the ImmuServer through the
// real immudb client over the in-memory listener (hook SimDialOptions). The
// harness speaks the simple-query protocol by hand: BEGIN / INSERT / UPDATE /
// DELETE / SELECT / COMMIT / ROLLBACK, statements of several connections
// interleaved in seeded order, connections dropped in the middle of a
// transaction. Same oracle as layers A and B; the affected-row counts are
// taken from the CommandComplete tags.

type c13cConn struct {
	name string
	c    net.Conn
	cur  *c13Tx
	left int
	todo int
	dead bool
}

// c13AltBody picks the second layer of a run: server sessions (B) or pgwire (C).
func c13AltBody(r *simcore.Run) {
	pick := r.Pct(40)
	switch os.Getenv("VERIF_C13_LAYER") {
	case "b":
		pick = false
	case "c":
		pick = true
	}
	if pick {
		c13cBody(r)
		return
	}
	c13bBody(r)
}

func pgMsg(t byte, payload []byte) []byte {
	out := make([]byte, 0, 5+len(payload))
	if t != 0 {
		out = append(out, t)
	}
	var l [4]byte
	binary.BigEndian.PutUint32(l[:], uint32(4+len(payload)))
	out = append(out, l[:]...)
	return append(out, payload...)
}

// pgRead reads one backend message.
func pgRead(c net.Conn) (byte, []byte, error) {
	c.SetReadDeadline(time.Now().Add(60 * time.Second))
	var hdr [5]byte
	if _, err := io.ReadFull(c, hdr[:]); err != nil {
		return 0, nil, err
	}
	n := int(binary.BigEndian.Uint32(hdr[1:])) - 4
	if n < 0 || n > 1<<24 {
		return 0, nil, fmt.Errorf("bad message length %d", n)
	}
	p := make([]byte, n)
	if _, err := io.ReadFull(c, p); err != nil {
		return 0, nil, err
	}
	return hdr[0], p, nil
}

func pgErrText(p []byte) string {
	for len(p) > 1 {
		code := p[0]
		i := 1
		for i < len(p) && p[i] != 0 {
			i++
		}
		if code == 'M' {
			return string(p[1:i])
		}
		if i+1 > len(p) {
			break
		}
		p = p[i+1:]
	}
	return "error"
}

// pgResult is what one simple query produced.
type pgResult struct {
	rows [][]string
	tags []string
	err  string // text of the ErrorResponse, if any
}

// pgQuery sends one simple query and reads up to ReadyForQuery.
func pgQuery(c net.Conn, sql string) (*pgResult, error) {
	c.SetWriteDeadline(time.Now().Add(60 * time.Second))
	if _, err := c.Write(pgMsg('Q', append([]byte(sql), 0))); err != nil {
		return nil, err
	}
	res := &pgResult{}
	for {
		t, p, err := pgRead(c)
		if err != nil {
			return nil, err
		}
		switch t {
		case 'D':
			if len(p) < 2 {
				return nil, fmt.Errorf("short DataRow")
			}
			n := int(binary.BigEndian.Uint16(p))
			p = p[2:]
			var row []string
			for i := 0; i < n; i++ {
				if len(p) < 4 {
					return nil, fmt.Errorf("short DataRow")
				}
				l := int(int32(binary.BigEndian.Uint32(p)))
				p = p[4:]
				if l < 0 {
					row = append(row, "NULL")
					continue
				}
				if len(p) < l {
					return nil, fmt.Errorf("short DataRow")
				}
				row = append(row, string(p[:l]))
				p = p[l:]
			}
			res.rows = append(res.rows, row)
		case 'C':
			res.tags = append(res.tags, strings.TrimRight(string(p), "\x00"))
		case 'E':
			res.err = pgErrText(p)
		case 'Z':
			return res, nil
		}
	}
}

// pgConnect performs the start-up and cleartext password exchange.
func pgConnect(c net.Conn, user, pw, db string) error {
	var params []byte
	params = binary.BigEndian.AppendUint32(params, 196608)
	for _, kv := range []string{"user", user, "database", db} {
		params = append(params, kv...)
		params = append(params, 0)
	}
	params = append(params, 0)
	c.SetWriteDeadline(time.Now().Add(60 * time.Second))
	if _, err := c.Write(pgMsg(0, params)); err != nil {
		return err
	}
	for {
		t, p, err := pgRead(c)
		if err != nil {
			return err
		}
		switch t {
		case 'R':
			if len(p) >= 4 && binary.BigEndian.Uint32(p) == 3 {
				if _, err := c.Write(pgMsg('p', append([]byte(pw), 0))); err != nil {
					return err
				}
			}
		case 'E':
			return fmt.Errorf("start-up refused: %s", pgErrText(p))
		case 'Z':
			return nil
		}
	}
}

// pgTagCount: the row count at the end of a CommandComplete tag (-1 if none).
func pgTagCount(tag string) int {
	f := strings.Fields(tag)
	if len(f) < 2 {
		return -1
	}
	n, err := strconv.Atoi(f[len(f)-1])
	if err != nil {
		return -1
	}
	return n
}

func c13cBody(r *simcore.Run) {
	r.Nontrivial()
	dir := r.Dir("srv-0")
	lis := bufconn.Listen(1 << 20)
	so := sessions.DefaultOptions().WithMaxSessionInactivityTime(10 * time.Minute).WithSessionGuardCheckInterval(30 * time.Second).WithTimeout(time.Minute)
	opts := server.DefaultOptions().WithDir(dir).WithAuth(true).WithListener(lis).WithAdminPassword("immudb").
		WithMetricsServer(false).WithWebServer(false).WithPgsqlServer(false).WithSessionOptions(so).WithPidfile("").WithLogfile("")
	memlog := logger.NewMemoryLoggerWithLevel(logger.LogError)
	srv := server.DefaultServer().WithOptions(opts).WithLogger(memlog).(*server.ImmuServer)
	if err := srv.Initialize(); err != nil {
		r.Violation("server-init", "", "Initialize failed: %v", err)
	}
	go srv.GrpcServer.Serve(lis)
	srv.SessManager.StartSessionsGuard()
	dial := grpc.WithContextDialer(func(ctx context.Context, _ string) (net.Conn, error) { return lis.DialContext(ctx) })
	conn, err := grpc.NewClient("passthrough:///bufnet", dial, grpc.WithTransportCredentials(insecure.NewCredentials()))
	r.Must(err, "dial")
	pgsrv.SimDialOptions = []grpc.DialOption{dial}
	pg := pgsrv.New(pgsrv.Host("127.0.0.1"), pgsrv.ImmudbPort(3322), pgsrv.Logger(memlog), pgsrv.DatabaseList(srv.SimDatabaseList()), pgsrv.SessManager(srv.SessManager))
	var conns []*c13cConn
	r.Defer(func() {
		for _, c := range conns {
			c.c.Close()
		}
		time.Sleep(time.Second) // the pgsql sessions close their immudb sessions
		conn.Close()
		srv.SessManager.StopSessionsGuard()
		srv.GrpcServer.Stop()
		srv.CloseDatabases()
		lis.Close()
		time.Sleep(2 * time.Second)
	})
	cl := schema.NewImmuServiceClient(conn)
	bg := context.Background()
	call := func(md metadata.MD) (context.Context, context.CancelFunc) {
		ctx, cancel := context.WithTimeout(bg, 30*time.Second)
		return metadata.NewOutgoingContext(ctx, md), cancel
	}
	r0, err := cl.OpenSession(bg, &schema.OpenSessionRequest{Username: []byte("immudb"), Password: []byte("immudb"), DatabaseName: "defaultdb"})
	r.Must(err, "admin session")
	actx, acancel := call(metadata.Pairs("sessionid", r0.SessionID))
	_, err = cl.CreateDatabaseV2(actx, &schema.CreateDatabaseRequest{Name: "db1", Settings: c18SmallDB()})
	acancel()
	r.Must(err, "create db1")

	open := func(name string) *c13cConn {
		c, s := net.Pipe()
		go pg.SimHandleConn(bg, s)
		if err := pgConnect(c, "immudb", "immudb", "db1"); err != nil {
			r.Violation("session", "", "pgsql start-up failed: %v", err)
		}
		pc := &c13cConn{name: name, c: c}
		conns = append(conns, pc)
		return pc
	}
	obs := open("obs")
	if res, err := pgQuery(obs.c, "CREATE TABLE acc (id INTEGER, v INTEGER, PRIMARY KEY id)"); err != nil || res.err != "" {
		r.Violation("ddl", "", "CREATE TABLE over pgwire failed: %v %v", err, res)
	}
	scan := func(c *c13cConn) ([]string, string, error) {
		res, err := pgQuery(c.c, "SELECT id, v FROM acc")
		if err != nil {
			return nil, "", err
		}
		var rows []string
		for _, row := range res.rows {
			if len(row) == 2 {
				rows = append(rows, row[0]+"="+row[1])
			}
		}
		return rows, res.err, nil
	}

	nSess := 2 + r.Intn(2)
	var ss []*c13cConn
	for i := 0; i < nSess; i++ {
		pc := open(fmt.Sprintf("p%d", i))
		pc.todo = 1 + r.Intn(3)
		ss = append(ss, pc)
	}
	var all []*c13Tx
	var observed [][]string
	end := func(s *c13cConn, outcome string) {
		s.cur.Outcome = outcome
		r.Logf("%s", c13Dump(s.cur))
		s.cur = nil
	}
	// the committed transaction count of db1
	lastTx := func() uint64 {
		d, err := srv.SimDatabaseList().GetByName("db1")
		if err != nil {
			return 0
		}
		cs, err := d.CurrentState()
		if err != nil {
			return 0
		}
		return cs.TxId
	}
	benign := func(msg string) bool {
		for _, k := range []string{"read conflict", "max concurrency", "max active transactions", "too many active snapshots", "non-transient key to transient", "no entries"} {
			if strings.Contains(msg, k) {
				return true
			}
		}
		return false
	}
	for steps := 0; steps < 400; steps++ {
		var live []*c13cConn
		for _, s := range ss {
			if !s.dead && (s.todo > 0 || s.cur != nil) {
				live = append(live, s)
			}
		}
		if len(live) == 0 {
			break
		}
		if r.Pct(10) {
			if rows, e, err := scan(obs); err == nil && e == "" {
				observed = append(observed, rows)
			}
		}
		s := live[r.Intn(len(live))]
		if s.cur == nil {
			s.todo--
			res, err := pgQuery(s.c, "BEGIN")
			if err != nil || res.err != "" {
				r.Violation("newtx", "", "%s: BEGIN over pgwire failed: %v %+v", s.name, err, res)
			}
			s.cur = &c13Tx{Session: s.name}
			all = append(all, s.cur)
			s.left = 1 + r.Intn(5)
			continue
		}
		// the connection drops in the middle of the transaction: nothing of it may stay
		if r.Pct(5) {
			s.c.Close()
			r.Fault("pgsql-connection-dropped-mid-transaction")
			time.Sleep(time.Second)
			end(s, "rolledback")
			s.dead = true
			continue
		}
		if s.left == 0 {
			if r.Pct(25) {
				res, err := pgQuery(s.c, "ROLLBACK")
				if err != nil || res.err != "" {
					r.Violation("rollback", "", "%s: ROLLBACK over pgwire failed: %v %+v", s.name, err, res)
				}
				end(s, "rolledback")
				continue
			}
			before := lastTx()
			res, err := pgQuery(s.c, "COMMIT")
			if err != nil {
				r.Violation("commit-error", "", "%s: COMMIT over pgwire: %v", s.name, err)
			}
			if res.err != "" {
				if !benign(res.err) {
					r.Violation("commit-error", "", "%s: COMMIT failed: %s\n  program: %s", s.name, res.err, c13Dump(s.cur))
				}
				end(s, "failed")
				continue
			}
			// the body is the only client: the transaction committed just now is the new last one
			if after := lastTx(); after == before+1 {
				s.cur.TxID = after
				end(s, "committed")
			} else if after == before {
				end(s, "rolledback") // nothing was written
			} else {
				r.Trouble("db1 went from tx %d to %d during one COMMIT", before, after)
			}
			continue
		}
		s.left--
		id, v := r.Intn(5), r.Intn(100)
		var st c13Stmt
		switch w := r.Intn(10); {
		case w < 3:
			st = c13Stmt{Kind: "ins", ID: id, V: v, SQL: fmt.Sprintf("INSERT INTO acc (id, v) VALUES (%d, %d)", id, v)}
		case w < 5:
			st = c13Stmt{Kind: "upd", ID: id, V: v, SQL: fmt.Sprintf("UPDATE acc SET v = %d WHERE id = %d", v, id)}
		case w < 6:
			st = c13Stmt{Kind: "del", ID: id, SQL: fmt.Sprintf("DELETE FROM acc WHERE id = %d", id)}
		default:
			st = c13Stmt{Kind: "sel", SQL: "SELECT id, v FROM acc"}
		}
		st.Affected = -1
		if st.Kind == "sel" {
			rows, e, err := scan(s)
			if err != nil {
				r.Violation("stmt-error", "", "%s: %q over pgwire: %v", s.name, st.SQL, err)
			}
			if e != "" {
				st.Err = e
				s.cur.Stmts = append(s.cur.Stmts, st)
				if !benign(e) {
					r.Violation("stmt-error", "", "%s: %q failed inside a transaction: %s", s.name, st.SQL, e)
				}
				pgQuery(s.c, "ROLLBACK")
				end(s, "failed")
				continue
			}
			st.Rows = rows
			s.cur.Stmts = append(s.cur.Stmts, st)
			continue
		}
		res, err := pgQuery(s.c, st.SQL)
		if err != nil {
			r.Violation("stmt-error", "", "%s: %q over pgwire: %v", s.name, st.SQL, err)
		}
		if res.err != "" {
			st.Err = res.err
			s.cur.Stmts = append(s.cur.Stmts, st)
			if !benign(res.err) && !strings.Contains(res.err, "key already exists") {
				r.Violation("stmt-error", "", "%s: %q failed inside a transaction: %s", s.name, st.SQL, res.err)
			}
			pgQuery(s.c, "ROLLBACK")
			end(s, "failed")
			continue
		}
		if len(res.tags) == 1 {
			st.Affected = pgTagCount(res.tags[0])
		}
		s.cur.Stmts = append(s.cur.Stmts, st)
	}
	for _, s := range ss {
		if s.cur != nil && !s.dead {
			pgQuery(s.c, "ROLLBACK")
			end(s, "rolledback")
		}
	}
	final, e, err := scan(obs)
	if err != nil || e != "" {
		r.Violation("scan-error", "", "final scan over pgwire failed: %v %s", err, e)
	}
	var frows [][]string
	for _, row := range final {
		frows = append(frows, strings.SplitN(row, "=", 2))
	}
	c13Analyse(r, all, observed, frows)
	nc, nst, nfail := 0, 0, 0
	for _, t := range all {
		if t.Outcome == "committed" {
			nc++
		}
		if t.Outcome == "failed" {
			nfail++
		}
		nst += len(t.Stmts)
	}
	r.Sig("c13c", len(all), nSess, nc, nst, nfail)
	r.Sample(map[string]interface{}{"layer": "PostgreSQL wire front-end", "connections": nSess, "transactions": len(all), "committed": nc})
}
