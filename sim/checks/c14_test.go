package checks

import (
	"context"
	"errors"
	"fmt"
	"os"

	"github.com/codenotary/immudb/embedded/store"

	"verifsim/simcore"
)

// C14 — value-log truncation keeps everything at or after the cut readable.
//
// System: real embedded/store with 1-3 value logs and tiny files; committers
// run concurrently (with the opt-in yield while a value log is held, so values
// land in the value logs out of id order); TruncateUptoTx races with writers
// and readers; restart afterwards.

func init() {
	register(&simcore.Check{ID: "C14", Bubble: true, Liveness: true, Body: c14Body, AltBody: c14bBody, AltPct: 25, AltSched: true})
}

func c14Body(r *simcore.Run) {
	cfg := genStCfg(r, false)
	cfg.Embedded = false
	cfg.Comp = 0
	cfg.Prealloc = false
	cfg.IOConc = r.Pick(1, 1, 2, 3)
	cfg.FileSize = r.Pick(256, 512, 1024)
	cfg.VCache = r.Pick(0, 0, 4)
	cfg.MaxConc = r.Pick(30, 6, 3)
	cfg.sig(r)
	r.Logf("cfg %+v", cfg)
	dir := r.Dir("st-0")
	r.Disk.Attach(dir)
	e := newStoreEnv(r, cfg, dir)
	e.emptyValuePct = r.Pick(5, 15, 30)
	e.starvePct = r.Pick(0, 10, 25)
	if err := e.open(); err != nil {
		r.Violation("open-new", "", "cannot open a new store: %v", err)
	}
	r.Sched.SetSwitchPct(r.Pick(100, 50, 20, 8, 3))
	if r.Pct(70) && os.Getenv("VERIF_NO_VLOGHELD") == "" {
		r.Sched.EnablePoint("vlog-held")
	}
	// phase 1: history written by concurrent committers
	run := func(nTasks, per int, extra ...func()) {
		var tasks []*simcore.Task
		for t := 0; t < nTasks; t++ {
			name := fmt.Sprintf("c%d", t)
			tasks = append(tasks, r.Sched.Go(name, func() { e.committer(name, per) }))
		}
		for i, f := range extra {
			tasks = append(tasks, r.Sched.Go(fmt.Sprintf("x%d", i), f))
		}
		for _, t := range tasks {
			t.Join()
		}
	}
	run(2+r.Intn(3), 2+r.Intn(8))
	n := e.verifyHistory("before truncation", true)
	if n == 0 {
		return
	}
	e.verifyExports("before truncation", n) // records the pristine exports

	rounds := 1 + r.Intn(2)
	var cut uint64
	var trace []string
	for round := 0; round < rounds; round++ {
		n, _ = e.st.CommittedAlh()
		lo := cut
		if lo == 0 {
			lo = 1
		}
		newCut := lo + uint64(r.Intn(int(n-lo)+1))
		cut2 := lo + uint64(r.Intn(int(n-lo)+1))
		maxCut := newCut
		concurrentTrunc := r.Pct(30)
		if concurrentTrunc && cut2 > maxCut {
			maxCut = cut2
		}
		// readers must find everything at or after the highest cut intact at any time
		e.truncatedBefore = maxCut
		trunc := func(c uint64) func() {
			return func() {
				r.Yield("trunc-start")
				var err error
				pv, stack := r.Catch(func() { err = e.st.TruncateUptoTx(c) })
				if pv != nil {
					r.Violation("panic", "", "TruncateUptoTx(%d) with %d committed panicked: %v\n%s", c, n, pv, stack)
				}
				r.Logf("TruncateUptoTx(%d) of %d committed: %v", c, n, err)
				if err != nil && !errors.Is(err, store.ErrAlreadyClosed) {
					r.Violation("truncate", "", "TruncateUptoTx(%d) with %d committed failed: %v", c, n, err)
				}
			}
		}
		reader := func() {
			for i := 0; i < 3+r.Intn(5); i++ {
				r.Yield("reader-op")
				cur, _ := e.st.CommittedAlh()
				id := maxCut + uint64(r.Intn(int(cur-maxCut)+1))
				e.mu.Lock()
				lt := e.led[id]
				e.mu.Unlock()
				if lt == nil {
					continue
				}
				tx := store.NewTx(16, 64)
				if err := e.st.ReadTx(id, false, tx); err != nil {
					r.Violation("read-tx", "", "ReadTx(%d) during truncation up to %d failed: %v", id, maxCut, err)
				}
				e.compareTx(fmt.Sprintf("during truncation up to %d", maxCut), lt, tx)
			}
		}
		extra := []func(){trunc(newCut), reader}
		if concurrentTrunc {
			extra = append(extra, trunc(cut2))
		}
		nw := r.Intn(3)
		run(nw, 1+r.Intn(4), extra...)
		cut = maxCut
		what := fmt.Sprintf("after truncation up to %d (round %d)", cut, round)
		n2 := e.verifyHistory(what, true)
		e.verifyIndex(what, n2)
		e.verifyProofs(what, n2, e.sampleStates(n2, 5))
		c14Exports(r, e, what, n2, cut)
		trace = append(trace, fmt.Sprintf("round %d: cut %d (second %v:%d), %d writers, committed %d", round, newCut, concurrentTrunc, cut2, nw, n2))
		if r.Pct(60) {
			if err := e.st.Close(); err != nil {
				r.Violation("close", "", "Close failed: %v", err)
			}
			if err := e.open(); err != nil {
				r.Violation("reopen", "", "reopen after truncation failed: %v", err)
			}
			what += " reopened"
			n3 := e.verifyHistory(what, true)
			e.verifyIndex(what, n3)
			c14Exports(r, e, what, n3, cut)
			// and the store still accepts commits
			e.committer("after", 2)
			e.verifyHistory(what+" +commits", true)
		}
	}
	e.st.Close()
	r.Sample(map[string]interface{}{"config": cfg, "rounds": trace})
}

// c14Exports: every export terminates; at or after the cut it is complete and
// unchanged; before the cut it may be complete, by digest or an explicit error;
// an error never leaves the store unable to export a healthy transaction.
func c14Exports(r *simcore.Run, e *storeEnv, what string, n, cut uint64) {
	tx := store.NewTx(16, 64)
	failed := false
	for id := uint64(1); id <= n; id++ {
		var bs []byte
		var err error
		pv, stack := r.Catch(func() { bs, err = e.st.ExportTx(id, false, false, tx) })
		if pv != nil {
			r.Violation("panic", "", "%s: ExportTx(%d) panicked: %v\n%s", what, id, pv, stack)
		}
		e.mu.Lock()
		lt := e.led[id]
		e.mu.Unlock()
		if id >= cut {
			if err != nil {
				r.Violation("export", "", "%s: ExportTx(%d) failed although the transaction is not older than the cut %d: %v", what, id, cut, err)
			}
			if lt != nil && lt.Export != nil && string(lt.Export) != string(bs) {
				r.Violation("immutable-export", "", "%s: exported bytes of tx %d (>= cut %d) changed", what, id, cut)
			}
			if lt != nil && lt.Export == nil {
				lt.Export = append([]byte(nil), bs...)
			}
			continue
		}
		if err != nil {
			failed = true
			r.Probe("c14-export-error-before-cut")
			continue
		}
		if lt != nil && lt.Export != nil && string(bs) != string(lt.Export) {
			if why := c09ExportDiffers(bs, lt.Export, lt); why != "" {
				r.Violation("export", "", "%s: ExportTx(%d) (older than the cut %d) returned neither the values nor their digests: %s", what, id, cut, why)
			}
			r.Probe("c14-export-by-digest")
		}
	}
	if failed && n >= cut {
		// the database stays usable: a healthy export right after a failed one
		ctx, cancel := context.WithCancel(context.Background())
		defer cancel()
		_ = ctx
		if _, err := e.st.ExportTx(n, false, false, tx); err != nil {
			r.Violation("export", "", "%s: ExportTx(%d) of a healthy transaction failed after an export error on an older one: %v", what, n, err)
		}
	}
}
