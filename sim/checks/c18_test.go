package checks

import (
	"context"
	"fmt"
	"io"
	"os"
	"net"
	"sort"
	"strings"
	"time"

	"github.com/codenotary/immudb/embedded/logger"
	"github.com/codenotary/immudb/pkg/api/protomodel"
	"github.com/codenotary/immudb/pkg/api/schema"
	"github.com/codenotary/immudb/pkg/server"
	"github.com/codenotary/immudb/pkg/server/sessions"
	"google.golang.org/grpc"
	"google.golang.org/grpc/credentials/insecure"
	"google.golang.org/grpc/metadata"
	"google.golang.org/grpc/test/bufconn"
	"google.golang.org/protobuf/proto"
	"google.golang.org/protobuf/reflect/protoreflect"
	"google.golang.org/protobuf/reflect/protoregistry"
	"google.golang.org/protobuf/types/known/emptypb"
	"google.golang.org/protobuf/types/known/structpb"

	"verifsim/simcore"
)

// C18 — access control: every operation is gated by the caller's database
// permission; unauthenticated, expired, deactivated or re-permissioned
// sessions are refused; the system database cannot be written through the
// public API.
//
// A real ImmuServer (auth on) runs inside the bubble and is driven over gRPC
// (bufconn) by the body, the only client. Every method registered in the three
// service descriptors is called for a seeded (user, selected database, kind of
// credentials, session state) cell; the session states are reached through the
// simulated clock and through administrative changes made after login.

func init() {
	register(&simcore.Check{ID: "C18", Bubble: true, FreeRun: true, Body: c18Body})
}

// permission levels, as the statement orders them
const (
	lvNone  = 0 // no credentials needed
	lvAuth  = 1 // any valid credentials
	lvR     = 2
	lvRW    = 3
	lvAdmin = 4
	lvSys   = 5
)

type c18Method struct {
	need  int
	write bool   // changes contents or settings of the selected database
	on    string // "" = the selected database, "target" = the database named in the request, "any" = not tied to one database
}

// c18Table: what the statement requires at least, per method (not what the
// implementation happens to demand: stricter is fine, weaker is the violation).
var c18Table = map[string]c18Method{
	// user and server administration
	"schema/ListUsers": {need: lvAuth}, "schema/CreateUser": {need: lvAdmin, on: "any"}, "schema/ChangePassword": {need: lvAdmin, on: "any"},
	"schema/ChangePermission": {need: lvAdmin, on: "any"}, "schema/ChangeSQLPrivileges": {need: lvAdmin, on: "any"}, "schema/SetActiveUser": {need: lvAdmin, on: "any"},
	"schema/UpdateAuthConfig": {need: lvAdmin, on: "any"}, "schema/UpdateMTLSConfig": {need: lvAdmin, on: "any"},
	// sessions
	"schema/OpenSession": {need: lvNone}, "schema/Login": {need: lvNone}, "authz/OpenSession": {need: lvNone},
	"schema/Health": {need: lvNone}, "schema/ServerInfo": {need: lvNone},
	"schema/CloseSession": {need: lvAuth}, "schema/KeepAlive": {need: lvAuth}, "schema/Logout": {need: lvAuth},
	"authz/CloseSession": {need: lvAuth}, "authz/KeepAlive": {need: lvAuth},
	"schema/NewTx": {need: lvAuth}, "schema/Commit": {need: lvAuth}, "schema/Rollback": {need: lvAuth},
	"schema/DatabaseList": {need: lvAuth}, "schema/DatabaseListV2": {need: lvAuth},
	"schema/UseDatabase": {need: lvR, on: "target"},
	// data, read
	"schema/Get": {need: lvR}, "schema/VerifiableGet": {need: lvR}, "schema/GetAll": {need: lvR}, "schema/Scan": {need: lvR},
	"schema/Count": {need: lvR}, "schema/CountAll": {need: lvR}, "schema/TxById": {need: lvR}, "schema/VerifiableTxById": {need: lvR},
	"schema/TxScan": {need: lvR}, "schema/History": {need: lvR}, "schema/DatabaseHealth": {need: lvR}, "schema/CurrentState": {need: lvR},
	"schema/ZScan": {need: lvR}, "schema/GetDatabaseSettings": {need: lvR}, "schema/GetDatabaseSettingsV2": {need: lvR},
	"schema/UnarySQLQuery": {need: lvR}, "schema/ListTables": {need: lvR}, "schema/DescribeTable": {need: lvR}, "schema/VerifiableSQLGet": {need: lvR},
	"schema/TxSQLQuery": {need: lvR}, "schema/streamGet": {need: lvR}, "schema/streamVerifiableGet": {need: lvR}, "schema/streamScan": {need: lvR},
	"schema/streamZScan": {need: lvR}, "schema/streamHistory": {need: lvR}, "schema/exportTx": {need: lvR}, "schema/streamExportTx": {need: lvR},
	"schema/SQLQuery":    {need: lvR},
	"doc/GetCollections": {need: lvR}, "doc/GetCollection": {need: lvR}, "doc/SearchDocuments": {need: lvR}, "doc/CountDocuments": {need: lvR},
	"doc/AuditDocument": {need: lvR}, "doc/ProofDocument": {need: lvR},
	// data, write
	"schema/Set": {need: lvRW, write: true}, "schema/VerifiableSet": {need: lvRW, write: true}, "schema/Delete": {need: lvRW, write: true},
	"schema/ExecAll": {need: lvRW, write: true}, "schema/SetReference": {need: lvRW, write: true}, "schema/VerifiableSetReference": {need: lvRW, write: true},
	"schema/ZAdd": {need: lvRW, write: true}, "schema/VerifiableZAdd": {need: lvRW, write: true}, "schema/SQLExec": {need: lvRW, write: true},
	"schema/TxSQLExec": {need: lvRW, write: true}, "schema/streamSet": {need: lvRW, write: true}, "schema/streamVerifiableSet": {need: lvRW, write: true},
	"schema/streamExecAll": {need: lvRW, write: true}, "schema/replicateTx": {need: lvRW, write: true},
	"doc/CreateCollection": {need: lvRW, write: true}, "doc/UpdateCollection": {need: lvRW, write: true}, "doc/DeleteCollection": {need: lvRW, write: true},
	"doc/AddField": {need: lvRW, write: true}, "doc/RemoveField": {need: lvRW, write: true}, "doc/CreateIndex": {need: lvRW, write: true},
	"doc/DeleteIndex": {need: lvRW, write: true}, "doc/InsertDocuments": {need: lvRW, write: true}, "doc/ReplaceDocuments": {need: lvRW, write: true},
	"doc/DeleteDocuments": {need: lvRW, write: true},
	// database administration
	"schema/CreateDatabase": {need: lvAdmin, on: "any"}, "schema/CreateDatabaseWith": {need: lvAdmin, on: "any"}, "schema/CreateDatabaseV2": {need: lvAdmin, on: "any"},
	"schema/LoadDatabase": {need: lvAdmin, on: "any"}, "schema/UnloadDatabase": {need: lvAdmin, on: "any"}, "schema/DeleteDatabase": {need: lvAdmin, on: "any"},
	// changing the settings of a database is an administrative operation on *that* database:
	// the admin right must be held on the database named in the request (dbtmp: only the sysadmin)
	"schema/UpdateDatabase": {need: lvAdmin, on: "named:dbtmp"}, "schema/UpdateDatabaseV2": {need: lvAdmin, on: "named:dbtmp"},
	"schema/FlushIndex": {need: lvAdmin}, "schema/CompactIndex": {need: lvAdmin}, "schema/TruncateDatabase": {need: lvAdmin, on: "target"},
}

// methods that end or redirect the caller's own credentials: called last
var c18Late = map[string]int{"schema/UseDatabase": 1, "schema/Logout": 2, "authz/CloseSession": 3, "schema/CloseSession": 4}

type c18User struct {
	name string
	perm uint32
	db   string // "*" for the system administrator
}

const c18Pw = "Passw0rd!x"

var c18Users = []c18User{
	{"immudb", 255, "*"},
	{"uadm", 254, "db1"},
	{"urw", 2, "db1"},
	{"ur", 1, "db1"},
	{"unone", 1, "db2"},
}

func (u c18User) password() string {
	if u.name == "immudb" {
		return "immudb"
	}
	return c18Pw
}

func (u c18User) level(db string) int {
	if u.db == "*" {
		return lvSys
	}
	if db != u.db {
		return lvAuth
	}
	switch u.perm {
	case 1:
		return lvR
	case 2:
		return lvRW
	case 254:
		return lvAdmin
	}
	return lvAuth
}

type c18Desc struct {
	key    string // "schema/Set"
	full   string // "/immudb.schema.ImmuService/Set"
	in     protoreflect.MessageType
	out    protoreflect.MessageType
	stream *grpc.StreamDesc
}

type c18Env struct {
	r       *simcore.Run
	srv     *server.ImmuServer
	conn    *grpc.ClientConn
	methods []*c18Desc
	admin   map[string]string // database -> session id of a system administrator session
	seq     int
	served  map[string]bool
	refused map[string]int
	docID   map[string]string // database -> id of the document setup put into collection c1
	sel     string            // the database the current cell's credentials select
	txid    string            // a transaction the current cell's session has open
}

func c18Services() ([]*c18Desc, error) {
	var out []*c18Desc
	add := func(short string, sd *grpc.ServiceDesc) error {
		d, err := protoregistry.GlobalFiles.FindDescriptorByName(protoreflect.FullName(sd.ServiceName))
		if err != nil {
			return fmt.Errorf("service %s: %v", sd.ServiceName, err)
		}
		svc := d.(protoreflect.ServiceDescriptor)
		mk := func(name string, st *grpc.StreamDesc) error {
			md := svc.Methods().ByName(protoreflect.Name(name))
			if md == nil {
				return fmt.Errorf("method %s.%s has no descriptor", sd.ServiceName, name)
			}
			in, err := protoregistry.GlobalTypes.FindMessageByName(md.Input().FullName())
			if err != nil {
				return err
			}
			ot, err := protoregistry.GlobalTypes.FindMessageByName(md.Output().FullName())
			if err != nil {
				return err
			}
			out = append(out, &c18Desc{key: short + "/" + name, full: "/" + sd.ServiceName + "/" + name, in: in, out: ot, stream: st})
			return nil
		}
		for _, m := range sd.Methods {
			if err := mk(m.MethodName, nil); err != nil {
				return err
			}
		}
		for i := range sd.Streams {
			s := sd.Streams[i]
			if err := mk(s.StreamName, &grpc.StreamDesc{StreamName: s.StreamName, ServerStreams: s.ServerStreams, ClientStreams: s.ClientStreams}); err != nil {
				return err
			}
		}
		return nil
	}
	if err := add("schema", &schema.ImmuService_ServiceDesc); err != nil {
		return nil, err
	}
	if err := add("doc", &protomodel.DocumentService_ServiceDesc); err != nil {
		return nil, err
	}
	if err := add("authz", &protomodel.AuthorizationService_ServiceDesc); err != nil {
		return nil, err
	}
	return out, nil
}

const (
	c18Idle     = 3 * time.Minute
	c18Guard    = time.Minute
	c18TokenMin = 60
	c18MaxAge   = 40 * time.Minute
)

func c18Body(r *simcore.Run) {
	r.Nontrivial()
	e := &c18Env{r: r, admin: map[string]string{}, served: map[string]bool{}, refused: map[string]int{}}
	methods, err := c18Services()
	r.Must(err, "service descriptors")
	e.methods = methods
	for _, m := range methods {
		if _, ok := c18Table[m.key]; !ok {
			r.Trouble("method %s is registered by the server but the check has no classification for it: extend c18Table", m.full)
			return
		}
	}

	dir := r.Dir("srv-0")
	lis := bufconn.Listen(1 << 20)
	so := sessions.DefaultOptions().WithMaxSessionInactivityTime(c18Idle).WithSessionGuardCheckInterval(c18Guard).
		WithMaxSessionAgeTime(c18MaxAge).WithTimeout(2 * time.Minute)
	opts := server.DefaultOptions().WithDir(dir).WithAuth(true).WithListener(lis).WithAdminPassword("immudb").
		WithMetricsServer(false).WithWebServer(false).WithPgsqlServer(false).WithSessionOptions(so).
		WithTokenExpiryTime(c18TokenMin).WithPidfile("").WithLogfile("")
	srv := server.DefaultServer().WithOptions(opts).WithLogger(logger.NewMemoryLoggerWithLevel(logger.LogError)).(*server.ImmuServer)
	if err := srv.Initialize(); err != nil {
		r.Violation("server-init", "", "Initialize failed: %v", err)
	}
	e.srv = srv
	go srv.GrpcServer.Serve(lis)
	srv.SessManager.StartSessionsGuard()
	conn, err := grpc.NewClient("passthrough:///bufnet",
		grpc.WithContextDialer(func(ctx context.Context, _ string) (net.Conn, error) { return lis.DialContext(ctx) }),
		grpc.WithTransportCredentials(insecure.NewCredentials()))
	r.Must(err, "dial")
	e.conn = conn
	r.Defer(func() {
		conn.Close()
		srv.SessManager.StopSessionsGuard()
		srv.GrpcServer.Stop()
		srv.CloseDatabases()
		lis.Close()
		// indexing goroutines whose context was cancelled sleep through an error
		// back-off before they notice: let them end inside the bubble
		time.Sleep(2 * time.Second)
	})

	e.setup()

	nCells := 1 + r.Intn(2)
	var cells []string
	for i := 0; i < nCells; i++ {
		u := c18Users[r.Intn(len(c18Users))]
		// half of the cells select the database the user holds its permission on
		sel := []string{"db1", "db2", "systemdb", "none"}[r.Intn(4)]
		if r.Bool() {
			sel = u.db
			if sel == "*" {
				sel = "db1"
			}
		}
		kind := []string{"session", "token"}[r.Intn(2)]
		states := []string{"valid", "valid", "valid", "none", "garbage", "closed", "deactivated", "revoked", "regranted", "regrant-relogin", "revoke-relogin"}
		if kind == "session" {
			states = append(states, "idle-expired", "age-expired")
		} else {
			states = append(states, "token-expired")
		}
		state := states[r.Intn(len(states))]
		if u.db == "*" && (state == "deactivated" || state == "revoked" || state == "regranted" || state == "regrant-relogin" || state == "revoke-relogin") {
			state = "closed"
		}
		cells = append(cells, e.cell(u, sel, kind, state))
	}
	var validated []string
	for k := range e.served {
		validated = append(validated, k)
	}
	sort.Strings(validated)
	r.Sig("c18", cells)
	r.Sample(map[string]interface{}{"cells": cells, "methods": len(e.methods), "methods_served_at_least_once_this_run": len(validated), "refusals": e.refused})
}

// call invokes one method over gRPC; served means it returned without error
// (for streams: the stream ended without error or delivered a message).
func (e *c18Env) call(m *c18Desc, md metadata.MD, req proto.Message) (served bool, err error) {
	served, _, err = e.callResp(m, md, req)
	return served, err
}

func (e *c18Env) callResp(m *c18Desc, md metadata.MD, req proto.Message) (served bool, out proto.Message, err error) {
	ctx, cancel := context.WithTimeout(context.Background(), 20*time.Second)
	defer cancel()
	if md != nil {
		ctx = metadata.NewOutgoingContext(ctx, md)
	}
	if req == nil {
		req = m.in.New().Interface()
	}
	if m.stream == nil {
		resp := m.out.New().Interface()
		if err := e.conn.Invoke(ctx, m.full, req, resp); err != nil {
			return false, nil, err
		}
		return true, resp, nil
	}
	cs, err := e.conn.NewStream(ctx, m.stream, m.full)
	if err != nil {
		return false, nil, err
	}
	if chunks, ok := req.(*c18Chunks); ok {
		for _, c := range chunks.list {
			if err := cs.SendMsg(c); err != nil {
				break
			}
		}
	} else if err := cs.SendMsg(req); err != nil && err != io.EOF {
		return false, nil, err
	}
	cs.CloseSend()
	got := 0
	for {
		resp := m.out.New().Interface()
		err := cs.RecvMsg(resp)
		if err == io.EOF {
			return true, nil, nil
		}
		if err != nil {
			if got > 0 {
				return true, nil, err // data was delivered before the error
			}
			return false, nil, err
		}
		got++
		if got > 64 {
			return true, nil, nil
		}
	}
}

// c18Chunks is a pseudo message: a client stream payload.
type c18Chunks struct {
	proto.Message
	list []proto.Message
}

// c18KVChunks is a client stream payload: the given leading values (the
// "prove since" number of StreamVerifiableSet, the operation kind of
// StreamExecAll), then one key and its value, each prefixed with its length.
func c18KVChunks(key, val string, lead ...[]byte) *c18Chunks {
	enc := func(b []byte) []byte {
		out := make([]byte, 8+len(b))
		for i := 0; i < 8; i++ {
			out[7-i] = byte(uint64(len(b)) >> (8 * uint(i)))
		}
		copy(out[8:], b)
		return out
	}
	var content []byte
	for _, l := range lead {
		content = append(content, enc(l)...)
	}
	content = append(content, enc([]byte(key))...)
	content = append(content, enc([]byte(val))...)
	return &c18Chunks{list: []proto.Message{&schema.Chunk{Content: content}}}
}

func (e *c18Env) find(key string) *c18Desc {
	for _, m := range e.methods {
		if m.key == key {
			return m
		}
	}
	e.r.Trouble("method %s not registered", key)
	panic("unreachable")
}

func (e *c18Env) must(key string, md metadata.MD, req proto.Message) {
	if _, err := e.call(e.find(key), md, req); err != nil {
		e.r.Violation("setup", "", "setup call %s failed: %v", key, err)
	}
}

func sidMD(sid string) metadata.MD { return metadata.Pairs("sessionid", sid) }

func (e *c18Env) openSession(user, pw, db string) (string, error) {
	resp := &schema.OpenSessionResponse{}
	ctx, cancel := context.WithTimeout(context.Background(), 20*time.Second)
	defer cancel()
	err := e.conn.Invoke(ctx, "/immudb.schema.ImmuService/OpenSession", &schema.OpenSessionRequest{Username: []byte(user), Password: []byte(pw), DatabaseName: db}, resp)
	return resp.GetSessionID(), err
}

// adminSessions makes sure one live system administrator session per database exists.
func (e *c18Env) adminSessions() {
	for _, db := range []string{"systemdb", "defaultdb", "db1", "db2", "dbtmp"} {
		if sid := e.admin[db]; sid != "" && e.srv.SessManager.SessionPresent(sid) {
			continue
		}
		sid, err := e.openSession("immudb", "immudb", db)
		if err != nil {
			delete(e.admin, db) // e.g. dbtmp unloaded or deleted by an allowed call
			continue
		}
		e.admin[db] = sid
	}
	if e.admin["defaultdb"] == "" {
		e.r.Violation("setup", "", "the system administrator cannot open a session on defaultdb")
	}
}

func (e *c18Env) setup() {
	sid, err := e.openSession("immudb", "immudb", "defaultdb")
	if err != nil {
		e.r.Violation("setup", "", "OpenSession(immudb, defaultdb) failed: %v", err)
	}
	amd := sidMD(sid)
	for _, db := range []string{"db1", "db2", "dbtmp"} {
		e.must("schema/CreateDatabaseV2", amd, &schema.CreateDatabaseRequest{Name: db, Settings: c18SmallDB()})
	}
	for _, u := range c18Users[1:] {
		e.must("schema/CreateUser", amd, &schema.CreateUserRequest{User: []byte(u.name), Password: []byte(c18Pw), Permission: u.perm, Database: u.db})
	}
	e.must("schema/CreateUser", amd, &schema.CreateUserRequest{User: []byte("uvictim"), Password: []byte(c18Pw), Permission: 1, Database: "db2"})
	e.adminSessions()
	for _, db := range []string{"db1", "db2", "defaultdb"} {
		md := sidMD(e.admin[db])
		e.must("schema/Set", md, &schema.SetRequest{KVs: []*schema.KeyValue{{Key: []byte("k1"), Value: []byte("v1")}, {Key: []byte("k2"), Value: []byte("v2")}}})
		e.must("schema/ZAdd", md, &schema.ZAddRequest{Set: []byte("z1"), Score: 1, Key: []byte("k1")})
		e.must("schema/SQLExec", md, &schema.SQLExecRequest{Sql: "CREATE TABLE t1 (id INTEGER, v VARCHAR, PRIMARY KEY id); INSERT INTO t1 (id, v) VALUES (1, 'one');"})
		e.must("doc/CreateCollection", md, &protomodel.CreateCollectionRequest{Name: "c1", Fields: []*protomodel.Field{{Name: "n", Type: protomodel.FieldType_INTEGER}}})
		doc, _ := structpb.NewStruct(map[string]interface{}{"n": 1})
		_, out, err := e.callResp(e.find("doc/InsertDocuments"), md, &protomodel.InsertDocumentsRequest{CollectionName: "c1", Documents: []*structpb.Struct{doc}})
		if err != nil {
			e.r.Violation("setup", "", "setup call doc/InsertDocuments failed: %v", err)
		}
		if ids := out.(*protomodel.InsertDocumentsResponse).DocumentIds; len(ids) == 1 {
			if e.docID == nil {
				e.docID = map[string]string{}
			}
			e.docID[db] = ids[0]
		}
	}
}

// fingerprint: everything a refused request must leave untouched — per
// database the committed state or the reason it cannot be read (unloaded,
// deleted); users, permissions, database settings and the existence of
// further databases are records of systemdb and show in its state.
func (e *c18Env) fingerprint() string {
	var parts []string
	for _, db := range []string{"systemdb", "defaultdb", "db1", "db2", "dbtmp"} {
		sid := e.admin[db]
		if sid == "" {
			parts = append(parts, db+":-")
			continue
		}
		ctx := metadata.NewIncomingContext(context.Background(), sidMD(sid))
		st, err := e.srv.CurrentState(ctx, &emptypb.Empty{})
		if err != nil {
			parts = append(parts, fmt.Sprintf("%s:err", db))
			continue
		}
		parts = append(parts, fmt.Sprintf("%s:%d:%x", db, st.TxId, st.TxHash))
	}
	return strings.Join(parts, " | ")
}

func (e *c18Env) request(m *c18Desc, target string) proto.Message {
	e.seq++
	k := []byte(fmt.Sprintf("w%d", e.seq))
	uname := fmt.Sprintf("unew%d", e.seq)
	set := &schema.SetRequest{KVs: []*schema.KeyValue{{Key: k, Value: []byte("x")}}}
	q := &protomodel.Query{CollectionName: "c1"}
	switch m.key {
	case "schema/CreateUser":
		return &schema.CreateUserRequest{User: []byte(uname), Password: []byte(c18Pw), Permission: 1, Database: "db1"}
	case "schema/ChangePassword":
		return &schema.ChangePasswordRequest{User: []byte("uvictim"), NewPassword: []byte(c18Pw + "y")}
	case "schema/ChangePermission":
		return &schema.ChangePermissionRequest{Action: schema.PermissionAction_GRANT, Username: "uvictim", Database: "db1", Permission: 2}
	case "schema/ChangeSQLPrivileges":
		return &schema.ChangeSQLPrivilegesRequest{Action: schema.PermissionAction_GRANT, Username: "uvictim", Database: "db2", Privileges: []string{"SELECT"}}
	case "schema/SetActiveUser":
		return &schema.SetActiveUserRequest{Active: false, Username: "uvictim"}
	case "schema/OpenSession":
		return &schema.OpenSessionRequest{Username: []byte("uvictim"), Password: []byte("wrong"), DatabaseName: "db2"}
	case "authz/OpenSession":
		return &protomodel.OpenSessionRequest{Username: "uvictim", Password: "wrong", Database: "db2"}
	case "schema/Login":
		return &schema.LoginRequest{User: []byte("uvictim"), Password: []byte("wrong")}
	case "schema/NewTx":
		return &schema.NewTxRequest{Mode: schema.TxMode_ReadWrite}
	case "schema/TxSQLExec":
		return &schema.SQLExecRequest{Sql: fmt.Sprintf("INSERT INTO t1 (id, v) VALUES (%d, 'tx')", 1000+e.seq)}
	case "schema/TxSQLQuery", "schema/UnarySQLQuery", "schema/SQLQuery":
		return &schema.SQLQueryRequest{Sql: "SELECT id, v FROM t1"}
	case "schema/Set":
		return set
	case "schema/VerifiableSet":
		return &schema.VerifiableSetRequest{SetRequest: set}
	case "schema/Get":
		return &schema.KeyRequest{Key: []byte("k1")}
	case "schema/streamGet":
		return &schema.KeyRequest{Key: []byte("k1")}
	case "schema/VerifiableGet", "schema/streamVerifiableGet":
		return &schema.VerifiableGetRequest{KeyRequest: &schema.KeyRequest{Key: []byte("k1")}}
	case "schema/Delete":
		return &schema.DeleteKeysRequest{Keys: [][]byte{[]byte("k2")}}
	case "schema/GetAll":
		return &schema.KeyListRequest{Keys: [][]byte{[]byte("k1")}}
	case "schema/ExecAll":
		return &schema.ExecAllRequest{Operations: []*schema.Op{{Operation: &schema.Op_Kv{Kv: &schema.KeyValue{Key: k, Value: []byte("x")}}}}}
	case "schema/Scan", "schema/streamScan":
		return &schema.ScanRequest{Limit: 5}
	case "schema/Count":
		return &schema.KeyPrefix{Prefix: []byte("k")}
	case "schema/TxById":
		return &schema.TxRequest{Tx: 1}
	case "schema/VerifiableTxById":
		return &schema.VerifiableTxRequest{Tx: 1, ProveSinceTx: 1}
	case "schema/TxScan":
		return &schema.TxScanRequest{InitialTx: 1, Limit: 2}
	case "schema/History", "schema/streamHistory":
		return &schema.HistoryRequest{Key: []byte("k1")}
	case "schema/SetReference":
		return &schema.ReferenceRequest{Key: k, ReferencedKey: []byte("k1")}
	case "schema/VerifiableSetReference":
		return &schema.VerifiableReferenceRequest{ReferenceRequest: &schema.ReferenceRequest{Key: k, ReferencedKey: []byte("k1")}}
	case "schema/ZAdd":
		return &schema.ZAddRequest{Set: []byte("z1"), Score: float64(e.seq), Key: []byte("k1")}
	case "schema/VerifiableZAdd":
		return &schema.VerifiableZAddRequest{ZAddRequest: &schema.ZAddRequest{Set: []byte("z1"), Score: float64(e.seq), Key: []byte("k1")}}
	case "schema/ZScan", "schema/streamZScan":
		return &schema.ZScanRequest{Set: []byte("z1"), Limit: 5}
	case "schema/CreateDatabase":
		return &schema.Database{DatabaseName: fmt.Sprintf("dbn%d", e.seq)}
	case "schema/CreateDatabaseWith":
		return &schema.DatabaseSettings{DatabaseName: fmt.Sprintf("dbn%d", e.seq)}
	case "schema/CreateDatabaseV2":
		return &schema.CreateDatabaseRequest{Name: fmt.Sprintf("dbn%d", e.seq), Settings: c18SmallDB()}
	case "schema/LoadDatabase":
		return &schema.LoadDatabaseRequest{Database: "dbtmp"}
	case "schema/UnloadDatabase":
		return &schema.UnloadDatabaseRequest{Database: "dbtmp"}
	case "schema/DeleteDatabase":
		return &schema.DeleteDatabaseRequest{Database: "dbtmp"}
	case "schema/UseDatabase":
		return &schema.Database{DatabaseName: target}
	case "schema/UpdateDatabase":
		return &schema.DatabaseSettings{DatabaseName: "dbtmp"}
	case "schema/UpdateDatabaseV2":
		return &schema.UpdateDatabaseRequest{Database: "dbtmp", Settings: &schema.DatabaseNullableSettings{Autoload: &schema.NullableBool{Value: false}}}
	case "schema/FlushIndex":
		return &schema.FlushIndexRequest{CleanupPercentage: 1, Synced: false}
	case "schema/SQLExec":
		return &schema.SQLExecRequest{Sql: fmt.Sprintf("INSERT INTO t1 (id, v) VALUES (%d, 'w')", 2000+e.seq)}
	case "schema/DescribeTable":
		return &schema.Table{TableName: "t1"}
	case "schema/VerifiableSQLGet":
		return &schema.VerifiableSQLGetRequest{SqlGetRequest: &schema.SQLGetRequest{Table: "t1", PkValues: []*schema.SQLValue{{Value: &schema.SQLValue_N{N: 1}}}}}
	case "schema/TruncateDatabase":
		return &schema.TruncateDatabaseRequest{Database: "db1", RetentionPeriod: int64(25 * time.Hour / time.Millisecond)}
	case "schema/exportTx":
		return &schema.ExportTxRequest{Tx: 1}
	case "schema/streamSet":
		return c18KVChunks(string(k), "x")
	case "schema/streamVerifiableSet":
		return c18KVChunks(string(k), "x", make([]byte, 8))
	case "schema/streamExecAll":
		return c18KVChunks(string(k), "x", []byte{1})
	case "schema/streamExportTx":
		return &schema.ExportTxRequest{Tx: 1}
	case "schema/replicateTx":
		return &c18Chunks{}
	case "doc/CreateCollection":
		return &protomodel.CreateCollectionRequest{Name: fmt.Sprintf("cn%d", e.seq)}
	case "doc/GetCollection":
		return &protomodel.GetCollectionRequest{Name: "c1"}
	case "doc/UpdateCollection":
		return &protomodel.UpdateCollectionRequest{Name: "c1", DocumentIdFieldName: fmt.Sprintf("id%d", e.seq)}
	case "doc/DeleteCollection":
		return &protomodel.DeleteCollectionRequest{Name: "c1"}
	case "doc/AddField":
		return &protomodel.AddFieldRequest{CollectionName: "c1", Field: &protomodel.Field{Name: fmt.Sprintf("f%d", e.seq), Type: protomodel.FieldType_STRING}}
	case "doc/RemoveField":
		return &protomodel.RemoveFieldRequest{CollectionName: "c1", FieldName: "n"}
	case "doc/CreateIndex":
		return &protomodel.CreateIndexRequest{CollectionName: "c1", Fields: []string{"n"}}
	case "doc/DeleteIndex":
		return &protomodel.DeleteIndexRequest{CollectionName: "c1", Fields: []string{"n"}}
	case "doc/InsertDocuments":
		doc, _ := structpb.NewStruct(map[string]interface{}{"n": e.seq})
		return &protomodel.InsertDocumentsRequest{CollectionName: "c1", Documents: []*structpb.Struct{doc}}
	case "doc/ReplaceDocuments":
		doc, _ := structpb.NewStruct(map[string]interface{}{"n": e.seq})
		return &protomodel.ReplaceDocumentsRequest{Query: q, Document: doc}
	case "doc/DeleteDocuments":
		return &protomodel.DeleteDocumentsRequest{Query: q}
	case "doc/SearchDocuments":
		return &protomodel.SearchDocumentsRequest{Query: q, Page: 1, PageSize: 5}
	case "doc/CountDocuments":
		return &protomodel.CountDocumentsRequest{Query: q}
	case "doc/AuditDocument":
		return &protomodel.AuditDocumentRequest{CollectionName: "c1", DocumentId: e.someDocID(), Page: 1, PageSize: 5}
	case "doc/ProofDocument":
		return &protomodel.ProofDocumentRequest{CollectionName: "c1", DocumentId: e.someDocID()}
	}
	return nil // the zero message of the method's input type
}

// someDocID: a document that exists in collection c1 of the selected database.
func (e *c18Env) someDocID() string {
	if id := e.docID[e.sel]; id != "" {
		return id
	}
	return "000000000000000000000000"
}

// newTx opens a read-write transaction in the session behind md ("" if refused).
func (e *c18Env) newTx(md metadata.MD) string {
	_, out, err := e.callResp(e.find("schema/NewTx"), md, &schema.NewTxRequest{Mode: schema.TxMode_ReadWrite})
	if err != nil {
		return ""
	}
	return out.(*schema.NewTxResponse).TransactionID
}

// cell runs every method for one (user, selected database, credentials, state).
func (e *c18Env) cell(u c18User, sel, kind, state string) string {
	r := e.r
	e.adminSessions()
	amd := sidMD(e.admin["defaultdb"])

	// a permission changed before login: the new credentials carry the new permission
	regrant := func() {}
	origState := state
	switch state {
	case "regrant-relogin":
		other := uint32(1)
		if u.perm == 1 {
			other = 2
		}
		e.must("schema/ChangePermission", amd, &schema.ChangePermissionRequest{Action: schema.PermissionAction_GRANT, Username: u.name, Database: u.db, Permission: other})
		orig := u
		regrant = func() {
			e.must("schema/ChangePermission", sidMD(e.admin["defaultdb"]), &schema.ChangePermissionRequest{Action: schema.PermissionAction_GRANT, Username: orig.name, Database: orig.db, Permission: orig.perm})
		}
		u.perm, state = other, "valid"
		r.Fault("permission-changed-before-login")
	case "revoke-relogin":
		e.must("schema/ChangePermission", amd, &schema.ChangePermissionRequest{Action: schema.PermissionAction_REVOKE, Username: u.name, Database: u.db, Permission: u.perm})
		orig := u
		regrant = func() {
			e.must("schema/ChangePermission", sidMD(e.admin["defaultdb"]), &schema.ChangePermissionRequest{Action: schema.PermissionAction_GRANT, Username: orig.name, Database: orig.db, Permission: orig.perm})
		}
		u.perm, state = 0, "valid"
		r.Fault("permission-revoked-before-login")
	}

	// credentials
	var md metadata.MD
	selected := "none"
	if state != "none" && state != "garbage" {
		if kind == "session" && sel != "none" {
			if sid, err := e.openSession(u.name, u.password(), sel); err == nil {
				md, selected = sidMD(sid), sel
			} else if u.level(sel) >= lvR && sel != "systemdb" {
				r.Violation("setup", "", "user %s (level %d on %s) cannot open a session there: %v", u.name, u.level(sel), sel, err)
			}
		}
		if md == nil {
			// token credentials; a database the user may not use stays unselected
			kind = "token"
			if state == "idle-expired" || state == "age-expired" {
				state = "token-expired" // tokens expire neither by inactivity nor by session age
			}
			if state == "closed" {
				// Logout ends a token only together with the user's last outstanding
				// login (token keys are per user, by design); "logged out" is not among
				// the session states of the property, so it is not claimed for tokens
				state = "valid"
			}
			resp := &schema.LoginResponse{}
			ctx, cancel := context.WithTimeout(context.Background(), 20*time.Second)
			err := e.conn.Invoke(ctx, "/immudb.schema.ImmuService/Login", &schema.LoginRequest{User: []byte(u.name), Password: []byte(u.password())}, resp)
			cancel()
			if err != nil {
				r.Violation("setup", "", "Login(%s) failed: %v", u.name, err)
			}
			md = metadata.Pairs("authorization", resp.Token)
			if sel != "none" {
				ur := &schema.UseDatabaseReply{}
				ctx, cancel := context.WithTimeout(metadata.NewOutgoingContext(context.Background(), md), 20*time.Second)
				err := e.conn.Invoke(ctx, "/immudb.schema.ImmuService/UseDatabase", &schema.Database{DatabaseName: sel}, ur)
				cancel()
				if err == nil {
					if u.level(sel) < lvR {
						r.Violation("selected-without-permission", "", "user %s holds no permission on %s but UseDatabase(%s) succeeded", u.name, sel, sel)
					}
					md, selected = metadata.Pairs("authorization", ur.Token), sel
				}
			}
		}
	} else if state == "garbage" {
		if kind == "session" {
			md = sidMD(fmt.Sprintf("%032x", r.Intn(1<<30)))
		} else {
			md = metadata.Pairs("authorization", "v2.public.ZmFrZXRva2Vu")
		}
	}

	// a session opens a transaction while its credentials are still good: the
	// transaction calls below refer to it
	e.sel, e.txid = selected, ""
	if kind == "session" && md != nil && state != "garbage" && state != "none" {
		e.txid = e.newTx(md)
	}

	// state reached after login
	switch state {
	case "closed":
		if kind == "session" {
			e.call(e.find("schema/CloseSession"), md, nil)
		} else {
			e.call(e.find("schema/Logout"), md, nil)
		}
	case "idle-expired":
		time.Sleep(c18Idle + 2*c18Guard + time.Second)
		r.Fault("session-idle-expiry")
		e.adminSessions()
		amd = sidMD(e.admin["defaultdb"])
	case "age-expired":
		// kept alive every two minutes until the session is older than the maximum age
		for t := time.Duration(0); t < c18MaxAge+2*c18Guard; t += 2 * time.Minute {
			time.Sleep(2 * time.Minute)
			e.call(e.find("schema/KeepAlive"), md, nil)
		}
		r.Fault("session-age-expiry")
		e.adminSessions()
		amd = sidMD(e.admin["defaultdb"])
	case "token-expired":
		time.Sleep(time.Duration(c18TokenMin)*time.Minute + time.Minute)
		r.Fault("token-expiry")
		e.adminSessions()
		amd = sidMD(e.admin["defaultdb"])
	case "deactivated":
		e.must("schema/SetActiveUser", amd, &schema.SetActiveUserRequest{Active: false, Username: u.name})
		r.Fault("user-deactivated-after-login")
		regrant = func() {
			e.must("schema/SetActiveUser", sidMD(e.admin["defaultdb"]), &schema.SetActiveUserRequest{Active: true, Username: u.name})
		}
	case "revoked":
		e.must("schema/ChangePermission", amd, &schema.ChangePermissionRequest{Action: schema.PermissionAction_REVOKE, Username: u.name, Database: u.db, Permission: u.perm})
		r.Fault("permission-revoked-after-login")
		regrant = func() {
			e.must("schema/ChangePermission", sidMD(e.admin["defaultdb"]), &schema.ChangePermissionRequest{Action: schema.PermissionAction_GRANT, Username: u.name, Database: u.db, Permission: u.perm})
		}
	case "regranted":
		other := uint32(1)
		if u.perm == 1 {
			other = 2
		}
		e.must("schema/ChangePermission", amd, &schema.ChangePermissionRequest{Action: schema.PermissionAction_GRANT, Username: u.name, Database: u.db, Permission: other})
		r.Fault("permission-changed-after-login")
		regrant = func() {
			e.must("schema/ChangePermission", sidMD(e.admin["defaultdb"]), &schema.ChangePermissionRequest{Action: schema.PermissionAction_GRANT, Username: u.name, Database: u.db, Permission: u.perm})
		}
	}
	if state != "valid" {
		r.Fault("credentials-" + state)
	}

	// seeded order, the credential-ending methods last
	order := make([]*c18Desc, len(e.methods))
	copy(order, e.methods)
	for i := len(order) - 1; i > 0; i-- {
		j := r.Intn(i + 1)
		order[i], order[j] = order[j], order[i]
	}
	sort.SliceStable(order, func(a, b int) bool { return c18Late[order[a].key] < c18Late[order[b].key] })

	label := fmt.Sprintf("%s/%s/%s/%s(selected=%s)", u.name, sel, kind, origState, selected)
	fp := e.fingerprint()
	mustRefuse, refused := 0, 0
	for _, m := range order {
		spec := c18Table[m.key]
		target := "db1"
		eff := lvNone
		if state == "valid" {
			eff = lvAuth
			switch spec.on {
			case "":
				if selected != "none" {
					eff = u.level(selected)
				}
			case "target":
				eff = u.level(target)
			case "named:dbtmp":
				eff = u.level("dbtmp")
			case "any":
				for _, db := range []string{"db1", "db2"} {
					if l := u.level(db); l > eff {
						eff = l
					}
				}
			}
		}
		must := spec.need > eff
		why := fmt.Sprintf("it needs level %d and the caller has %d", spec.need, eff)
		if state == "valid" && selected == "systemdb" && spec.write && spec.on == "" {
			must, why = true, "the system database cannot be written through the public API"
		}
		if state != "valid" && spec.need > lvNone {
			why = "the caller's credentials are " + state
		}
		req := e.request(m, target)
		cmd := md
		e.sel = selected
		switch m.key {
		case "schema/TxSQLExec", "schema/TxSQLQuery", "schema/Commit", "schema/Rollback":
			if e.txid == "" && state == "valid" && kind == "session" {
				e.txid = e.newTx(md)
			}
			if e.txid != "" {
				cmd = metadata.Join(md, metadata.Pairs("transactionid", e.txid))
			}
		}
		served, resp, err := e.callResp(m, cmd, req)
		if m.key == "schema/Commit" || m.key == "schema/Rollback" {
			if served || state == "valid" {
				e.txid = "" // ended, or gone together with a failed COMMIT
			}
		}
		if ul, ok := resp.(*schema.UserList); ok && served && state == "valid" {
			// a caller without admin rights learns about nobody but itself; an admin of
			// the selected database only about the users of that database
			for _, lu := range ul.Users {
				visible := u.db == "*" || string(lu.User) == u.name
				if !visible && selected != "none" && u.level(selected) == lvAdmin {
					for _, p := range lu.Permissions {
						visible = visible || p.Database == selected
					}
				}
				if !visible {
					r.Violation("data-without-permission", "data:"+m.key, "cell %s: ListUsers returned the record of user %q to %s", label, lu.User, u.name)
				}
			}
		}
		if served && state == "valid" && u.db != "*" {
			var names []string
			switch l := resp.(type) {
			case *schema.DatabaseListResponse:
				for _, d := range l.Databases {
					names = append(names, d.DatabaseName)
				}
			case *schema.DatabaseListResponseV2:
				for _, d := range l.Databases {
					names = append(names, d.Name)
				}
			}
			for _, n := range names {
				if n != u.db {
					r.Violation("data-without-permission", "data:"+m.key, "cell %s: %s listed database %q to %s, who holds no permission on it", label, m.full, n, u.name)
				}
			}
		}
		r.Logf("%s: %s served=%v must-refuse=%v err=%.120v", label, m.key, served, must, err)
		if !served && !must && os.Getenv("VERIF_C18_DEBUG") != "" {
			fmt.Fprintf(os.Stderr, "C18DEBUG %s %s: %.160v\n", m.key, label, err)
		}
		if served {
			e.served[m.key] = true
			r.Probe("c18-served-" + m.key)
		} else {
			e.refused[c18ErrClass(err)]++
		}
		if must {
			mustRefuse++
			if served {
				r.Violation("served-without-permission", "served:"+m.key, "cell %s: %s was served although %s", label, m.full, why)
			}
			refused++
			if fp2 := e.fingerprint(); fp2 != fp {
				r.Violation("effect-without-permission", "effect:"+m.key, "cell %s: %s was refused (%v) but changed the server state although %s\n  before: %s\n  after:  %s", label, m.full, err, why, fp, fp2)
			}
			continue
		}
		if served && c18Late[m.key] > 0 && m.key != "schema/UseDatabase" && kind == "session" {
			// the caller closed its own session: everything after it must be refused
			// (a token survives Logout while the user has another login outstanding)
			state = "closed"
		}
		if served && m.key == "schema/UseDatabase" {
			selected = target
		}
		if !served && strings.Contains(fmt.Sprint(err), "session not found") && state == "valid" && kind == "session" {
			// an allowed earlier call (e.g. a password or permission change hitting the caller) ended the session
			state = "closed"
		}
		e.adminSessions()
		fp = e.fingerprint()
	}
	regrant()
	r.Probe("c18-cell-" + origState)
	return fmt.Sprintf("%s must-refuse=%d refused=%d", label, mustRefuse, refused)
}

func c18ErrClass(err error) string {
	s := fmt.Sprint(err)
	for _, k := range []string{"permission denied", "PermissionDenied", "Unauthenticated", "session not found", "not logged in", "please select a database", "token", "illegal arguments", "not found", "already exists", "DeadlineExceeded"} {
		if strings.Contains(s, k) {
			return k
		}
	}
	return "other"
}

// c18SmallDB: settings that keep opening a database cheap (the defaults
// pre-allocate tens of megabytes per database).
func c18SmallDB() *schema.DatabaseNullableSettings {
	u := func(v uint32) *schema.NullableUint32 { return &schema.NullableUint32{Value: v} }
	return &schema.DatabaseNullableSettings{
		MaxKeyLen: u(256), MaxValueLen: u(4096), MaxTxEntries: u(64), MaxConcurrency: u(4), MaxIOConcurrency: u(1),
		TxLogCacheSize: u(8), VLogCacheSize: u(8), WriteBufferSize: u(1 << 14), ReadTxPoolSize: u(4), MaxActiveTransactions: u(16),
		IndexSettings: &schema.IndexNullableSettings{CacheSize: u(64), MaxActiveSnapshots: u(8), FlushBufferSize: u(1 << 14)},
		AhtSettings:   &schema.AHTNullableSettings{WriteBufferSize: u(1 << 14)},
	}
}
