package checks

import (
	"crypto/sha256"
	"encoding/binary"

	"github.com/codenotary/immudb/embedded/store"

	"verifsim/simcore"
)

// C01, histories whose binary linking lags the linear chain.
//
// Today's precommit always links a transaction to the tree over all of its
// predecessors (BlTxID = id-1), so the store never writes such a history
// itself; databases written by older releases and anything received through
// ReplicateTx may hold one. The harness acts as the synthetic primary: the
// honest history is exported, every header is re-linked to a tree size chosen
// by the tape (0 <= BlTxID' <= id-1, never decreasing), BlRoot' is the
// reference Merkle root over the re-linked chain, PrevAlh' the re-linked
// predecessor, and the result is fed through the real ReplicateTx into a
// second store, which then is the honest server of the run.

// refInnerHash is the header digest written from its definition
// (ts, version, [metadata], number of entries, eH, blTxID, blRoot).
func refInnerHash(h *store.TxHeader) [32]byte {
	var b []byte
	var u8 [8]byte
	binary.BigEndian.PutUint64(u8[:], uint64(h.Ts))
	b = append(b, u8[:]...)
	binary.BigEndian.PutUint16(u8[:], uint16(h.Version))
	b = append(b, u8[:2]...)
	if h.Version == 0 {
		binary.BigEndian.PutUint16(u8[:], uint16(h.NEntries))
		b = append(b, u8[:2]...)
	} else {
		var md []byte
		if h.Metadata != nil {
			md = h.Metadata.Bytes()
		}
		binary.BigEndian.PutUint16(u8[:], uint16(len(md)))
		b = append(b, u8[:2]...)
		b = append(b, md...)
		binary.BigEndian.PutUint32(u8[:], uint32(h.NEntries))
		b = append(b, u8[:4]...)
	}
	b = append(b, h.Eh[:]...)
	binary.BigEndian.PutUint64(u8[:], h.BlTxID)
	b = append(b, u8[:]...)
	b = append(b, h.BlRoot[:]...)
	return sha256.Sum256(b)
}

// refAdvance is alh(id) = H(id || alh(id-1) || innerHash(id)).
func refAdvance(prev [32]byte, id uint64, inner [32]byte) [32]byte {
	var b [8 + 64]byte
	binary.BigEndian.PutUint64(b[:], id)
	copy(b[8:], prev[:])
	copy(b[40:], inner[:])
	return sha256.Sum256(b[:])
}

// c01BuildLagging re-links the honest history of e and replicates it into a
// fresh store. Returns nil when the history cannot be used (a committed but
// never acknowledged transaction).
func c01BuildLagging(r *simcore.Run, e *storeEnv, cfg stCfg, n uint64) *storeEnv {
	for id := uint64(1); id <= n; id++ {
		if e.led[id] == nil {
			return nil
		}
	}
	lag := newStoreEnv(r, cfg, r.Dir("lagging"))
	if err := lag.open(); err != nil {
		r.Violation("open-new", "", "cannot open the store of the re-linked history: %v", err)
	}
	tx := store.NewTx(16, 64)
	var leaves [][32]byte
	prev := sha256.Sum256(nil)
	bl := uint64(0)
	maxLag := uint64(0)
	for id := uint64(1); id <= n; id++ {
		bs, err := e.st.ExportTx(id, false, false, tx)
		if err != nil {
			r.Violation("export", "", "ExportTx(%d) of the honest history failed: %v", id, err)
		}
		hl := int(binary.BigEndian.Uint32(bs))
		hdr := &store.TxHeader{}
		if err := hdr.ReadFrom(bs[4 : 4+hl]); err != nil {
			r.Violation("export", "", "the exported header of tx %d cannot be read back: %v", id, err)
		}
		if refAdvance(hdr.PrevAlh, hdr.ID, refInnerHash(hdr)) != hdr.Alh() {
			r.Trouble("the harness's header digest disagrees with TxHeader.Alh for tx %d (version %d)", id, hdr.Version)
		}
		switch r.Intn(4) {
		case 0, 1: // the tree does not advance
		case 2:
			bl = id - 1
		default:
			bl += uint64(r.Intn(int(id - bl)))
		}
		if id == 1 {
			bl = 0
		}
		if id-1-bl > maxLag {
			maxLag = id - 1 - bl
		}
		hdr.BlTxID = bl
		hdr.BlRoot = [32]byte{}
		if bl > 0 {
			hdr.BlRoot = refMTH(leaves[:bl])
		}
		hdr.PrevAlh = prev
		hb, err := hdr.Bytes()
		if err != nil {
			r.Trouble("re-linked header of tx %d cannot be serialised: %v", id, err)
		}
		out := make([]byte, 4, 4+len(hb)+len(bs)-4-hl)
		binary.BigEndian.PutUint32(out, uint32(len(hb)))
		out = append(out, hb...)
		out = append(out, bs[4+hl:]...)
		h2, err := lag.st.ReplicateTx(r.Ctx(), out, false, false)
		if err != nil {
			r.Violation("lagging-history-rejected", "", "a well-formed exported transaction %d linked to the tree of size %d (reference root over the chain) is refused by ReplicateTx: %v", id, bl, err)
		}
		alh := refAdvance(prev, id, refInnerHash(hdr))
		if h2.Alh() != alh || h2.BlTxID != bl {
			r.Violation("lagging-history-altered", "", "tx %d replicated with BlTxID %d came back with BlTxID %d / another accumulated hash", id, bl, h2.BlTxID)
		}
		old := e.led[id]
		lag.led[id] = &ledTx{ID: id, Hdr: *h2, MDBytes: old.MDBytes, Alh: alh, Entries: old.Entries}
		lag.maxAcked = id
		leaves = append(leaves, refLeaf(alh[:]))
		prev = alh
	}
	if maxLag >= 2 {
		r.Probe("c01-lag-of-two-or-more")
	}
	r.Probe("c01-lagging-history")
	return lag
}

// c01Reroot is the coordinated forger: it presents a target transaction whose
// binary tree differs from the history in one leaf k <= min(trusted id, tree
// size) — i.e. inside what the trusted state commits to — and recomputes
// everything that depends on it (tree root in the target header, inclusion,
// consistency and last-inclusion paths from the forged tree, the inclusion
// paths of the linear-advance proof, the last linear term, the claimed new
// state), so that every check but the one that binds the two trees passes.
// With deep == true the accumulated hashes of k..tree size are re-chained from
// the forged one, as a server that rewrote history from k on would present them.
// Acceptance is always a violation: the new state does not extend the trusted one.
func c01Reroot(r *simcore.Run, p *store.DualProof, i, j uint64, alh func(uint64) [32]byte, deep bool) (*store.DualProof, [32]byte, uint64, string) {
	T := p.TargetTxHeader.BlTxID
	if T == 0 || i == j {
		return nil, [32]byte{}, 0, ""
	}
	srcBl := p.SourceTxHeader.BlTxID
	lim := i
	if T < lim {
		lim = T
	}
	k := 1 + uint64(r.Intn(int(lim)))
	alhs := make([][32]byte, T+1)
	for x := uint64(1); x <= T; x++ {
		alhs[x] = alh(x)
	}
	var fake [32]byte
	copy(fake[:], r.Bytes(32))
	q := *p
	th := *p.TargetTxHeader
	q.TargetTxHeader = &th
	how := "re-rooted tree (one leaf inside the trusted range replaced)"
	if deep && p.LinearAdvanceProof != nil && k > srcBl && i >= T {
		// re-chain k..T with the honest inner hashes, which the proof carries
		la := p.LinearAdvanceProof
		if len(la.LinearProofTerms) != int(T-srcBl) {
			return nil, [32]byte{}, 0, ""
		}
		terms := append([][32]byte(nil), la.LinearProofTerms...)
		if k == srcBl+1 {
			terms[0] = fake
		}
		alhs[k] = fake
		for x := k + 1; x <= T; x++ {
			alhs[x] = refAdvance(alhs[x-1], x, terms[x-srcBl-1])
		}
		nl := *la
		nl.LinearProofTerms = terms
		q.LinearAdvanceProof = &nl
		q.TargetBlTxAlh = alhs[T]
		how = "history re-chained from a forged transaction inside the trusted range"
	} else {
		alhs[k] = fake
		if k == T {
			q.TargetBlTxAlh = fake
		}
	}
	leaves := make([][32]byte, T)
	for x := uint64(1); x <= T; x++ {
		leaves[x-1] = refLeaf(alhs[x][:])
	}
	th.BlRoot = refMTH(leaves)
	if i < T {
		q.InclusionProof = refInclusionPath(int(i-1), leaves)
	}
	switch r.Intn(3) {
	case 0:
		if srcBl > 0 {
			q.ConsistencyProof = refConsistencyPath(int(srcBl), leaves)
		}
	case 1:
		q.ConsistencyProof = nil
	}
	q.LastInclusionProof = refInclusionPath(int(T-1), leaves)
	if p.LinearProof != nil && len(p.LinearProof.Terms) > 1 {
		lp := *p.LinearProof
		lp.Terms = append([][32]byte(nil), p.LinearProof.Terms...)
		lp.Terms[len(lp.Terms)-1] = refInnerHash(&th)
		if i < T {
			// the linear part starts at the last leaf of the tree
			lp.Terms[0] = q.TargetBlTxAlh
		}
		q.LinearProof = &lp
	}
	if q.LinearAdvanceProof != nil {
		la := *q.LinearAdvanceProof
		end := T
		if i < T {
			end = i
		}
		if end > srcBl+1 && len(la.InclusionProofs) == int(end-srcBl)-1 {
			ips := make([][][32]byte, len(la.InclusionProofs))
			for x := srcBl + 1; x < end; x++ {
				ips[x-srcBl-1] = refInclusionPath(int(x-1), leaves)
			}
			la.InclusionProofs = ips
		}
		q.LinearAdvanceProof = &la
	}
	// the forged target header has to follow the (possibly forged) chain
	if q.LinearProof != nil && len(q.LinearProof.Terms) > 1 {
		th.PrevAlh = prevOfChain(q.LinearProof)
	}
	return &q, th.Alh(), k, how
}

// prevOfChain returns the accumulated hash that precedes the last term of a
// linear proof (the PrevAlh the forged target header has to carry so that its
// own digest equals the end of the chain).
func prevOfChain(lp *store.LinearProof) [32]byte {
	c := lp.Terms[0]
	for x := 1; x < len(lp.Terms)-1; x++ {
		c = refAdvance(c, lp.SourceTxID+uint64(x), lp.Terms[x])
	}
	return c
}
