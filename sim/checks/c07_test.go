package checks

import (
	"os"
	"strings"
	"bytes"
	"context"
	"errors"
	"fmt"
	"time"

	"github.com/codenotary/immudb/embedded/ahtree"
	"github.com/codenotary/immudb/embedded/store"

	"verifsim/simcore"
)

// C07 — replication reproduces exactly the primary's history, nothing else.
//
// Layer A (store level): a primary store P and a replica store R live in the
// same bubble. The messages are P.ExportTx(i); 1-3 replica worker tasks
// deliver them to R.ReplicateTx out of order within the concurrency window,
// duplicated, retried after time-outs, interleaved with altered copies
// (bit flips, truncations, length edits), replica close/reopen and precommit
// discarding.

func init() {
	register(&simcore.Check{ID: "C07", Bubble: true, Liveness: true, Body: c07Body, AltBody: c07AltBody, AltPct: 40, AltSched: true})
}

func c07Body(r *simcore.Run) {
	cfg := genStCfg(r, false)
	cfg.Comp = 0
	cfg.Prealloc = false
	cfg.MaxConc = 30
	cfg.MaxActive = r.Pick(1000, 8, 4)
	cfg.sig(r)
	r.Logf("cfg %+v", cfg)
	p := newStoreEnv(r, cfg, r.Dir("primary"))
	p.emptyValuePct = r.Pick(0, 10, 30)
	if err := p.open(); err != nil {
		r.Violation("open-new", "", "cannot open the primary: %v", err)
	}
	r.Sched.SetSwitchPct(r.Pick(100, 50, 20))
	// primary history written by concurrent committers
	var tasks []*simcore.Task
	nTasks, per := 1+r.Intn(3), 1+r.Intn(6)
	for t := 0; t < nTasks; t++ {
		name := fmt.Sprintf("c%d", t)
		tasks = append(tasks, r.Sched.Go(name, func() { p.committer(name, per) }))
	}
	for _, t := range tasks {
		t.Join()
	}
	n := p.verifyHistory("primary", true)
	if n == 0 {
		return
	}
	// optionally truncate the primary so that old transactions are exported by digest
	var cut uint64
	if !cfg.Embedded && r.Pct(25) && n > 2 {
		cut = 1 + uint64(r.Intn(int(n)))
		if err := p.st.TruncateUptoTx(cut); err != nil {
			r.Violation("truncate", "", "TruncateUptoTx(%d) on the primary failed: %v", cut, err)
		}
	}
	msgs := make(map[uint64][]byte)
	tx := store.NewTx(16, 64)
	skipIntegrity := r.Pct(20)
	for id := uint64(1); id <= n; id++ {
		bs, err := p.st.ExportTx(id, false, skipIntegrity, tx)
		if err != nil {
			if cut > 0 && id < cut {
				// an explicit error for a partially truncated transaction: replication cannot proceed past it
				r.Probe("c07-export-refused-after-truncation")
				n = id - 1
				break
			}
			r.Violation("export", "", "ExportTx(%d) on the primary failed: %v", id, err)
		}
		msgs[id] = append([]byte(nil), bs...)
	}
	if n == 0 {
		return
	}

	rcfg := cfg
	rcfg.Synced = r.Bool()
	rep := newStoreEnv(r, rcfg, r.Dir("replica"))
	rep.led = p.led
	rep.truncatedBefore = 0
	// in some runs the replica commits only what it is allowed to (synchronous
	// replication mode of the store), allowances arrive with a lag, and precommitted
	// transactions are discarded now and then, partially or completely
	ext := r.Pct(35)
	if ext {
		rep.optMod = func(o *store.Options) { o.WithExternalCommitAllowance(true) }
	}
	if err := rep.open(); err != nil {
		r.Violation("open-new", "", "cannot open the replica: %v", err)
	}
	delivered := map[uint64]bool{}
	altered, rejected, dups, discards := 0, 0, 0, 0
	ctx := context.Background()

	stateOf := func() string {
		cid, calh := rep.st.CommittedAlh()
		pid, palh := rep.st.PrecommittedAlh()
		return fmt.Sprintf("%d/%x/%d/%x", cid, calh[:8], pid, palh[:8])
	}
	deliver := func(worker string, id uint64, bs []byte, isAltered bool) {
		before := stateOf()
		cctx, cancel := context.WithTimeout(ctx, 2*time.Second)
		var hdr *store.TxHeader
		var err error
		pv, stack := r.Catch(func() { hdr, err = rep.st.ReplicateTx(cctx, bs, skipIntegrity && !isAltered, false) })
		cancel()
		if pv != nil {
			r.Violation("panic", "", "ReplicateTx(tx %d, altered=%v) panicked: %v\n%s", id, isAltered, pv, stack)
		}
		r.Logf("%s: ReplicateTx(%d altered=%v) -> %v", worker, id, isAltered, err)
		if isAltered {
			altered++
			if err != nil {
				rejected++
				// nothing may have changed because of this message (other workers may
				// have made progress meanwhile, so only compare when nobody else ran)
				return
			}
			// accepted: then what the replica holds must be exactly the primary's transaction
			_ = before
			if lt := p.led[hdr.ID]; lt != nil && hdr.Alh() != lt.Alh {
				h2 := *hdr
				h2.Ts, h2.Version, h2.Metadata = lt.Hdr.Ts, lt.Hdr.Version, lt.Hdr.Metadata
				if h2.Alh() == lt.Alh {
					// only header fields that the replica cannot derive differ: nothing
					// in the exported form authenticates them
					r.Finding("replica-diverged", "C07:exported-tx-header-not-authenticated", "the replica accepted exported tx %d whose header was altered in transit (ts %d/%d, version %d/%d, metadata %v/%v): its accumulated hash now differs from the primary's; the exported form carries no authenticator for the header, the divergence only shows when the next transaction's PrevAlh is rejected", hdr.ID, hdr.Ts, lt.Hdr.Ts, hdr.Version, lt.Hdr.Version, hdr.Metadata, lt.Hdr.Metadata)
					r.EndRun()
				}
			}
			c07Compare(r, p, rep, hdr.ID, "accepted an altered message")
			delivered[hdr.ID] = true
			return
		}
		if err == nil {
			if hdr.ID != id {
				r.Violation("replica-diverged", "", "ReplicateTx of exported tx %d returned id %d", id, hdr.ID)
			}
			delivered[id] = true
			return
		}
		switch {
		case errors.Is(err, store.ErrTxAlreadyCommitted):
			dups++
			delivered[id] = true
		case errors.Is(err, context.DeadlineExceeded), errors.Is(err, store.ErrMaxActiveTransactionsLimitExceeded),
			errors.Is(err, store.ErrMaxConcurrencyLimitExceeded), errors.Is(err, store.ErrAlreadyClosed), errors.Is(err, store.ErrBufferIsFull):
			// retried later
		default:
			if errors.Is(err, store.ErrIllegalArguments) || errors.Is(err, store.ErrUnexpectedError) {
				// out of order beyond what the replica accepts: retried later
				return
			}
			if discards > 0 && errors.Is(err, ahtree.ErrUnexistentData) {
				// after a discard the in-memory precommit watermark is not receded: a
				// transaction delivered ahead of its (discarded) predecessors does not wait
				// for them and fails while checking its BlRoot; it is refused without effect
				// and accepted once the predecessors are back
				r.Probe("c07-out-of-order-after-discard")
				return
			}
			r.Violation("replica-rejects", "", "ReplicateTx of the untouched exported tx %d failed: %v", id, err)
		}
	}
	worker := func(name string) func() {
		return func() {
			for round := 0; round < 400; round++ {
				r.Yield("c07-worker")
				pid, _ := rep.st.PrecommittedAlh()
				if pid >= n {
					return
				}
				// pick a message inside (or slightly outside) the window
				win := uint64(rcfg.MaxActive)
				if win > 6 {
					win = 6
				}
				id := pid + 1 + uint64(r.Intn(int(win)))
				if r.Pct(15) && pid > 0 {
					id = 1 + uint64(r.Intn(int(pid))) // duplicate of something already there
				}
				if id > n {
					id = pid + 1
				}
				bs := msgs[id]
				if r.Pct(20) {
					if mut := c07Alter(r, bs); mut != nil {
						deliver(name, id, mut, true)
						continue
					}
				}
				deliver(name, id, bs, false)
				if ext {
					cid, _ := rep.st.CommittedAlh()
					pid, _ := rep.st.PrecommittedAlh()
					if pid > cid && r.Pct(50) {
						upto := cid + 1 + uint64(r.Intn(int(pid-cid)))
						err := rep.st.AllowCommitUpto(upto)
						if os.Getenv("VERIF_REPLAY") != "" {
							c2, _ := rep.st.CommittedAlh()
							p2, _ := rep.st.PrecommittedAlh()
							r.Logf("%s: AllowCommitUpto(%d) with committed %d precommitted %d -> %v; now committed %d precommitted %d", name, upto, cid, pid, err, c2, p2)
						}
						if err != nil && !errors.Is(err, store.ErrAlreadyClosed) {
							r.Violation("allow-commit", "", "AllowCommitUpto(%d) with committed %d, precommitted %d failed: %v", upto, cid, pid, err)
						}
					}
					cid, _ = rep.st.CommittedAlh()
					pid, _ = rep.st.PrecommittedAlh()
					if pid > cid && r.Pct(6) {
						since := cid + 1 + uint64(r.Intn(int(pid-cid)))
						_, err := rep.st.DiscardPrecommittedTxsSince(since)
						r.Logf("%s: DiscardPrecommittedTxsSince(%d) with committed %d precommitted %d -> %v", name, since, cid, pid, err)
						if err != nil && errors.Is(err, store.ErrIllegalState) && strings.Contains(err.Error(), "allowed to be committed") {
							// a granted commit allowance covers part of the range: refused as a whole, nothing discarded
							r.Probe("c07-discard-refused-allowed-range")
							continue
						}
						if err != nil && !errors.Is(err, store.ErrAlreadyClosed) && !errors.Is(err, store.ErrIllegalArguments) {
							r.Violation("discard", "", "DiscardPrecommittedTxsSince(%d) failed: %v", since, err)
						}
						for id := since; id <= n; id++ {
							delete(delivered, id)
						}
						np, _ := rep.st.PrecommittedAlh()
						if err == nil && np >= since {
							r.Violation("discard", "", "after DiscardPrecommittedTxsSince(%d) the replica still reports precommitted tx %d", since, np)
						}
						r.Probe("c07-precommitted-discarded")
						discards++
					}
				}
			}
		}
	}
	tasks = nil
	nWorkers := 1 + r.Intn(3)
	for w := 0; w < nWorkers; w++ {
		name := fmt.Sprintf("rw%d", w)
		tasks = append(tasks, r.Sched.Go(name, worker(name)))
	}
	for _, t := range tasks {
		t.Join()
	}
	// optional restart of the replica, then make sure everything is there
	if r.Pct(40) {
		if err := rep.st.Close(); err != nil {
			r.Violation("close", "", "closing the replica failed: %v", err)
		}
		if err := rep.open(); err != nil {
			r.Violation("reopen", "", "reopening the replica failed: %v", err)
		}
		if r.Pct(30) {
			pid, _ := rep.st.PrecommittedAlh()
			cid, _ := rep.st.CommittedAlh()
			if pid > cid {
				if _, err := rep.st.DiscardPrecommittedTxsSince(cid + 1); err != nil {
					r.Violation("discard", "", "DiscardPrecommittedTxsSince(%d) failed: %v", cid+1, err)
				}
				r.Probe("c07-precommitted-discarded")
				discards++
				for id := cid + 1; id <= n; id++ {
					delete(delivered, id)
				}
			}
		}
		tasks = []*simcore.Task{r.Sched.Go("rw-final", worker("rw-final"))}
		tasks[0].Join()
	}
	if ext {
		// the primary committed everything: the last allowance covers all of it
		for round := 0; round < 50; round++ {
			pid, _ := rep.st.PrecommittedAlh()
			if pid >= n {
				break
			}
			t := r.Sched.Go("rw-drain", worker("rw-drain"))
			t.Join()
			// the primary committed all of it: what is precommitted may be committed, and committing
			// (done by the syncer of a synced store) takes time; the window of active transactions
			// only moves on once it happened
			if pid, _ := rep.st.PrecommittedAlh(); pid > 0 {
				rep.st.AllowCommitUpto(pid)
			}
			r.Sched.Sleep(100 * time.Millisecond)
		}
		pid, _ := rep.st.PrecommittedAlh()
		if err := rep.st.AllowCommitUpto(pid); err != nil {
			r.Violation("allow-commit", "", "final AllowCommitUpto(%d) failed: %v", pid, err)
		}
		wctx, cancel := context.WithTimeout(ctx, 10*time.Second)
		werr := rep.st.WaitForTx(wctx, pid, false)
		cancel()
		if werr != nil {
			r.Violation("replica-behind", "", "after AllowCommitUpto(%d) the replica does not commit it: %v", pid, werr)
		}
	}
	if err := rep.st.Sync(); err != nil {
		r.Violation("sync", "", "Sync on the replica failed: %v", err)
	}
	rn, ralh := rep.st.CommittedAlh()
	// what the replica holds is compared first: an altered message can be applied
	// although its ReplicateTx call returned an error (precommitted, then the wait
	// for the commit timed out), and a diverged transaction is what keeps the
	// replica from advancing
	for id := uint64(1); id <= rn && id <= n; id++ {
		c07Compare(r, p, rep, id, "final")
	}
	if rn != n {
		r.Violation("replica-behind", "", "after all faults stopped the replica holds %d of the primary's %d transactions", rn, n)
	}
	for id := uint64(1); id <= n; id++ {
		c07Compare(r, p, rep, id, "final")
	}
	if ralh != p.led[n].Alh {
		r.Violation("replica-diverged", "", "the replica's state for tx %d differs from the primary's", n)
	}
	rep.truncatedBefore = cut
	rep.digestOnlyBefore = cut
	rep.maxAcked = n
	rep.verifyHistoryFrom("replica", false, n)
	rep.verifyIndex("replica", n)
	rep.verifyProofs("replica", n, rep.sampleStates(n, 6))
	rep.st.Close()
	p.st.Close()
	r.Sig("c07", n, altered > 0, dups > 0, cut > 0, skipIntegrity)
	r.Sample(map[string]interface{}{"config": cfg, "primary_txs": n, "workers": nWorkers, "altered_messages": altered, "altered_rejected": rejected, "duplicates": dups, "truncated_before": cut, "skip_integrity_check": skipIntegrity})
}

// c07Compare: tx id on the replica equals the primary's (header, entries, values).
func c07Compare(r *simcore.Run, p, rep *storeEnv, id uint64, what string) {
	lt := p.led[id]
	if lt == nil {
		r.Violation("replica-diverged", "", "%s: the replica holds tx %d which the primary never acknowledged", what, id)
	}
	tx := store.NewTx(16, 64)
	hdr, err := rep.st.ReadTxHeader(id, true, false)
	if err != nil {
		r.Violation("replica-diverged", "", "%s: the replica cannot read the header of tx %d: %v", what, id, err)
	}
	if hdr.Alh() != lt.Alh {
		h2 := *hdr
		h2.Ts, h2.Version, h2.Metadata = lt.Hdr.Ts, lt.Hdr.Version, lt.Hdr.Metadata
		if h2.Alh() == lt.Alh {
			// only header fields that the replica cannot derive differ: nothing in
			// the exported form authenticates them
			r.Finding("replica-diverged", "C07:exported-tx-header-not-authenticated", "%s: the replica accepted exported tx %d whose header was altered in transit (ts %d/%d, version %d/%d, metadata %v/%v): its accumulated hash now differs from the primary's", what, id, hdr.Ts, lt.Hdr.Ts, hdr.Version, lt.Hdr.Version, hdr.Metadata, lt.Hdr.Metadata)
			r.EndRun()
		}
		r.Violation("replica-diverged", "", "%s: tx %d on the replica has a different accumulated hash than on the primary", what, id)
	}
	cid, _ := rep.st.CommittedAlh()
	if id > cid {
		return
	}
	if err := rep.st.ReadTx(id, false, tx); err != nil {
		r.Violation("replica-diverged", "", "%s: the replica cannot read tx %d: %v", what, id, err)
	}
	es := tx.Entries()
	if len(es) != len(lt.Entries) {
		r.Violation("replica-diverged", "", "%s: tx %d has %d entries on the replica, %d on the primary", what, id, len(es), len(lt.Entries))
	}
	for i, le := range lt.Entries {
		var md []byte
		if es[i].Metadata() != nil {
			md = es[i].Metadata().Bytes()
		}
		if !bytes.Equal(es[i].Key(), le.Key) || !bytes.Equal(md, le.MD) {
			r.Violation("replica-diverged", "", "%s: entry %d of tx %d differs between replica and primary", what, i, id)
		}
	}
}

// c07Alter returns an altered copy of an exported transaction (nil if none).
func c07Alter(r *simcore.Run, bs []byte) []byte {
	if len(bs) < 8 {
		return nil
	}
	m := append([]byte(nil), bs...)
	switch r.Intn(5) {
	case 0: // bit flip anywhere
		i := r.Intn(len(m))
		m[i] ^= 1 << uint(r.Intn(8))
	case 1: // truncation
		m = m[:r.Intn(len(m))]
	case 2: // trailer edits
		switch r.Intn(3) {
		case 0:
			m[len(m)-1] ^= 1
		case 1:
			m = m[:len(m)-1]
			m[len(m)-2], m[len(m)-1] = 0, 0
		default:
			m = append(m, 0)
		}
	case 3: // a length field gets large
		i := r.Intn(len(m) - 1)
		m[i], m[i+1] = 0xff, 0xff
	default: // extra bytes / duplicated tail
		k := 1 + r.Intn(8)
		if k > len(m) {
			k = len(m)
		}
		m = append(m, m[len(m)-k:]...)
	}
	if bytes.Equal(m, bs) {
		return nil
	}
	r.Fault("altered-exported-tx")
	return m
}
