package checks

import (
	"sort"
	"errors"
	"fmt"
	"strconv"
	"strings"

	"github.com/codenotary/immudb/embedded/sql"
	"github.com/codenotary/immudb/embedded/store"

	"verifsim/simcore"
)

// C11 — SQL query results do not depend on the physical plan.
//
// Secondary indexes are store indexes filled asynchronously by one scheduled
// indexer task each; a DML session, index maintenance and restarts run while a
// query task issues metamorphic query groups at arbitrary points: the same
// query through every usable index, predicate partitioning (TLP) and ORDER BY
// through an index vs. through a sort, inside an open transaction as well as
// on committed data.

func init() {
	register(&simcore.Check{ID: "C11", Bubble: true, Liveness: true, Body: c11Body})
}

func c11Body(r *simcore.Run) {
	s := newSQLEnv(r, "sql-0")
	s.mustExec("CREATE TABLE t (id INTEGER, a INTEGER, b VARCHAR[8], c INTEGER, PRIMARY KEY id)")
	indexes := []string{"a", "b", "a, c"}
	// a second, static table for joins
	s.mustExec("CREATE TABLE o (id INTEGER, owner INTEGER, PRIMARY KEY id)")
	for i := 0; i < 6; i++ {
		s.mustExec(fmt.Sprintf("INSERT INTO o (id, owner) VALUES (%d, %d)", i, r.Intn(12)))
	}
	early := r.Pct(60)
	if early {
		for _, ix := range indexes {
			s.mustExec("CREATE INDEX ON t(" + ix + ")")
		}
	}
	r.Sched.SetSwitchPct(r.Pick(100, 50, 20))
	val := func() (string, string, string) {
		a := strconv.Itoa(r.Intn(5))
		if r.Pct(15) {
			a = "NULL"
		}
		b := []string{"'x'", "'xy'", "'y'", "'zz'", "NULL"}[r.Intn(5)]
		c := strconv.Itoa(r.Intn(4))
		if r.Pct(20) {
			c = "NULL"
		}
		return a, b, c
	}
	dml := func(tx *sql.SQLTx) *sql.SQLTx {
		id := r.Intn(12)
		a, b, c := val()
		var q string
		switch r.Intn(6) {
		case 0, 1, 2:
			q = fmt.Sprintf("UPSERT INTO t (id, a, b, c) VALUES (%d, %s, %s, %s)", id, a, b, c)
		case 3:
			q = fmt.Sprintf("UPDATE t SET a = %s, c = %s WHERE id = %d", a, c, id)
		case 4:
			q = fmt.Sprintf("UPDATE t SET b = %s WHERE a = %s", b, strconv.Itoa(r.Intn(5)))
		default:
			q = fmt.Sprintf("DELETE FROM t WHERE id = %d", id)
		}
		ntx, _, err := s.exec(tx, q)
		r.Logf("dml: %s -> %v", q, err)
		if err != nil && tx != nil && errors.Is(err, store.ErrKeyNotFound) && strings.Contains(q, "WHERE a =") {
			// inside an open transaction the secondary index (snapshot taken now) shows a
			// row committed by another session after the transaction took its snapshot of
			// the primary index: UPDATE finds the row through the one and not in the other
			r.Finding("stmt-error", "C11:per-index-snapshots-in-open-transaction", "%q inside an open transaction (other sessions committing meanwhile) failed with %v: the row read through the secondary index is missing from the transaction's older snapshot of the primary index", q, err)
			r.EndRun()
		}
		if err != nil && !isBenignTxErr(err) && !isConstraintErr(err) {
			r.Violation("stmt-error", "", "%q failed: %v", q, err)
		}
		if ntx != nil {
			return ntx
		}
		return tx
	}
	groups := 0
	var tasks []*simcore.Task
	tasks = append(tasks, r.Sched.Go("dml", func() {
		for i := 0; i < 5+r.Intn(20); i++ {
			r.Yield("c11-dml")
			dml(nil)
		}
	}))
	if r.Pct(50) {
		tasks = append(tasks, r.Sched.Go("maint", func() {
			for i := 0; i < 1+r.Intn(3); i++ {
				r.Yield("c11-maint")
				if r.Bool() {
					s.se.st.FlushIndexes(float32(r.Pick(0, 50)), r.Bool())
				} else {
					s.se.st.CompactIndexes()
				}
			}
		}))
	}
	tasks = append(tasks, r.Sched.Go("query", func() {
		for i := 0; i < 2+r.Intn(5); i++ {
			r.Yield("c11-query")
			if s.r.Sched.MaxSameName("indexer") > 1 {
				return // compaction restarted an index while it was indexing (C04 finding): not this property
			}
			if r.Pct(30) {
				// inside an open transaction with uncommitted changes
				tx, err := s.eng.NewTx(r.Ctx(), sql.DefaultTxOptions().WithExplicitClose(true))
				if err != nil {
					continue
				}
				for k := 0; k < 1+r.Intn(3); k++ {
					tx = dml(tx)
				}
				if !tx.Closed() {
					groups += c11Group(s, tx, early, indexes, "inside an open transaction")
					tx.Cancel()
				}
				continue
			}
			groups += c11Group(s, nil, false, indexes, "on committed data while writers run")
		}
	}))
	for _, t := range tasks {
		t.Join()
	}
	if !early {
		for _, ix := range indexes {
			s.mustExec("CREATE INDEX ON t(" + ix + ")")
		}
		r.Probe("c11-index-created-after-data")
	}
	if r.Sched.MaxSameName("indexer") <= 1 {
		groups += c11Group(s, nil, true, indexes, "after the workload")
		if r.Pct(40) {
			s.reopen()
			groups += c11Group(s, nil, true, indexes, "after restart")
		}
	}
	s.se.st.Close()
	r.Sig("c11", groups, early)
	r.Sample(map[string]interface{}{"query_groups": groups, "indexes_before_data": early})
}

// c11Group runs one metamorphic group; strict=false tolerates differences that
// concurrent writers can explain (each query takes its own snapshot).
func c11Group(s *sqlEnv, tx *sql.SQLTx, haveIdx bool, indexes []string, what string) int {
	r := s.r
	strict := tx != nil || strings.HasPrefix(what, "after")
	k := r.Intn(5)
	preds := []string{
		fmt.Sprintf("a > %d", k), fmt.Sprintf("a = %d", k), fmt.Sprintf("a <= %d", k), "b = 'x'", "b >= 'xy'", "c IS NULL",
		fmt.Sprintf("a >= %d AND c < %d", k, r.Intn(4)), fmt.Sprintf("a = %d OR b = 'y'", k), fmt.Sprintf("a IN (%d, %d)", k, (k+2)%5),
		"b LIKE 'x.*'", fmt.Sprintf("NOT (a < %d)", k), fmt.Sprintf("a = %d AND c = %d", k, r.Intn(4)),
		fmt.Sprintf("a >= %d AND a <= %d", k%3, k%3+2), fmt.Sprintf("a > %d AND a < %d", k%2, k%2+4),
		fmt.Sprintf("%d < a", k), fmt.Sprintf("%d >= a", k), fmt.Sprintf("%d <= a AND c IS NOT NULL", k%3), fmt.Sprintf("%d > id", 2+k*3),
	}
	p := preds[r.Intn(len(preds))]
	base := "SELECT id, a, b, c FROM t"
	run := func(q string) ([]string, bool) {
		rows, err := s.query(tx, q)
		if err != nil {
			if isBenignTxErr(err) || strings.Contains(err.Error(), "index not found") || strings.Contains(err.Error(), "no index") {
				return nil, false
			}
			r.Violation("query-error", "", "%s: %q failed: %v", what, q, err)
		}
		return rowsKey(rows), true
	}
	ref, ok := run(base + " WHERE " + p)
	if !ok {
		return 0
	}
	if strict && (haveIdx || tx == nil) {
		for _, ix := range indexes {
			got, ok := run(base + " USE INDEX ON (" + ix + ") WHERE " + p)
			if !ok {
				continue
			}
			if fmt.Sprint(sortedCopy(got)) != fmt.Sprint(sortedCopy(ref)) && tx != nil {
				// an open transaction takes the snapshot of each index lazily, at its
				// first use: with writers committing in between, the indexes of one
				// transaction can reflect different committed states
				r.Finding("plan-dependent", "C11:per-index-snapshots-in-open-transaction", "%s (other sessions committing meanwhile): WHERE %s returns %v through the default plan and %v through the index on (%s)", what, p, sortedCopy(ref), sortedCopy(got), ix)
				return 1
			}
			if fmt.Sprint(sortedCopy(got)) != fmt.Sprint(sortedCopy(ref)) {
				r.Violation("plan-dependent", "", "%s: WHERE %s returns %v through the default plan and %v through the index on (%s)", what, p, sortedCopy(ref), sortedCopy(got), ix)
			}
		}
	}
	// ternary logic partitioning
	if strict && tx == nil {
		all, ok0 := run(base)
		np, ok1 := run(base + " WHERE NOT (" + p + ")")
		un, ok2 := run(base + " WHERE (" + p + ") IS NULL")
		if ok0 && ok1 && ok2 {
			parts := append(append(append([]string(nil), ref...), np...), un...)
			if fmt.Sprint(sortedCopy(parts)) != fmt.Sprint(sortedCopy(all)) {
				r.Violation("partition", "", "%s: the rows of WHERE %s (%v), WHERE NOT (%v) and IS NULL (%v) do not partition the table %v", what, p, ref, np, un, sortedCopy(all))
			}
		}
		// ORDER BY through an index vs. through a sort; output must be sorted, NULL first
		dir := []string{"ASC", "DESC"}[r.Intn(2)]
		ordCol, ordPos := "a", 1
		if r.Bool() {
			ordCol, ordPos = "c", 3 // not the leading column of any index
		}
		ordered, ok3 := run(base + " WHERE " + p + " ORDER BY " + ordCol + " " + dir)
		if ok3 {
			if fmt.Sprint(sortedCopy(ordered)) != fmt.Sprint(sortedCopy(ref)) {
				r.Violation("plan-dependent", "", "%s: WHERE %s ORDER BY %s %s returns %v, without ORDER BY %v", what, p, ordCol, dir, ordered, ref)
			}
			prev := ""
			for i, row := range ordered {
				a := strings.Split(row, "|")[ordPos]
				if i > 0 && c11Less(a, prev, dir == "DESC") {
					r.Violation("order-by", "", "%s: WHERE %s ORDER BY %s %s is not sorted: %v", what, p, ordCol, dir, ordered)
				}
				prev = a
			}
		}
		// paging: ORDER BY the primary key is a total order, so LIMIT n OFFSET m must be exactly rows m..m+n of
		// the full ordered result, whichever index scans the table (a sort step is needed unless it is the primary one)
		byID, okp := run(base + " WHERE " + p + " ORDER BY id " + dir)
		if okp {
			if fmt.Sprint(sortedCopy(byID)) != fmt.Sprint(sortedCopy(ref)) {
				r.Violation("plan-dependent", "", "%s: WHERE %s ORDER BY id %s returns %v, without ORDER BY %v", what, p, dir, byID, ref)
			}
			n, m := 1+r.Intn(4), r.Intn(4)
			want := []string{}
			if m < len(byID) {
				want = byID[m:min(len(byID), m+n)]
			}
			plans := []string{""}
			for _, ix := range indexes {
				plans = append(plans, " USE INDEX ON ("+ix+")")
			}
			for _, plan := range plans {
				q := fmt.Sprintf("%s%s WHERE %s ORDER BY id %s LIMIT %d", base, plan, p, dir, n)
				if m > 0 || r.Bool() {
					q += fmt.Sprintf(" OFFSET %d", m)
				} else {
					want = byID[:min(len(byID), n)]
				}
				page, okq := run(q)
				if okq && fmt.Sprint(page) != fmt.Sprint(want) {
					r.Violation("paging", "", "%s: %q returns %v; rows %d..%d of the same query without LIMIT are %v", what, q, page, m, m+n, want)
				}
			}
		}
		// DISTINCT under ORDER BY and LIMIT: the first n distinct values
		if ok0 {
			n := 1 + r.Intn(4)
			dcol, dpos := "a", 1
			if r.Bool() {
				dcol, dpos = "c", 3 // no index delivers this order: a sort step precedes DISTINCT
			}
			seen := map[string]bool{}
			var vals []string
			for _, row := range all {
				v := strings.Split(row, "|")[dpos]
				if !seen[v] {
					seen[v] = true
					vals = append(vals, v)
				}
			}
			sort.Slice(vals, func(x, y int) bool { return c11Less(vals[x], vals[y], dir == "DESC") })
			for _, plan := range []string{"", " USE INDEX ON (a)"} {
				q := fmt.Sprintf("SELECT DISTINCT %s FROM t%s ORDER BY %s %s LIMIT %d", dcol, plan, dcol, dir, n)
				got, okd := run(q)
				if okd && fmt.Sprint(got) != fmt.Sprint(vals[:min(len(vals), n)]) {
					r.Violation("distinct-limit", "", "%s: %q returns %v; the distinct values of %s in that order are %v", what, q, got, dcol, vals)
					break
				}
			}
		}
		// joins: the result equals the nested-loop join computed here from the two tables
		jcond := []string{fmt.Sprintf("t.a = %d", k), "t.c IS NULL", fmt.Sprintf("t.a > %d", k), "o.owner > 3"}[r.Intn(4)]
		jrows, okj := run("SELECT t.id, o.id FROM t INNER JOIN o ON t.id = o.owner AND " + jcond)
		orows, oko := run("SELECT id, owner FROM o")
		if okj && oko && ok0 {
			var want []string
			for _, tr := range all {
				tf := strings.Split(tr, "|")
				for _, or := range orows {
					of := strings.Split(or, "|")
					if tf[0] != of[1] {
						continue
					}
					hold := false
					switch {
					case strings.HasPrefix(jcond, "t.a ="):
						hold = tf[1] == strconv.Itoa(k)
					case jcond == "t.c IS NULL":
						hold = tf[3] == "NULL"
					case strings.HasPrefix(jcond, "t.a >"):
						v, err := strconv.Atoi(tf[1])
						hold = err == nil && v > k
					default:
						v, _ := strconv.Atoi(of[1])
						hold = v > 3
					}
					if hold {
						want = append(want, tf[0]+"|"+of[0])
					}
				}
			}
			if fmt.Sprint(sortedCopy(jrows)) != fmt.Sprint(sortedCopy(want)) {
				r.Violation("join", "", "%s: t INNER JOIN o ON t.id = o.owner AND %s returns %v, the nested-loop join of the two tables gives %v", what, jcond, sortedCopy(jrows), sortedCopy(want))
			}
		}
	}
	return 1
}

// c11Less: a sorts strictly before b (NULL first ascending).
func c11Less(a, b string, desc bool) bool {
	key := func(x string) int {
		if x == "NULL" {
			return -1 << 30
		}
		v, _ := strconv.Atoi(x)
		return v
	}
	if desc {
		return key(a) > key(b)
	}
	return key(a) < key(b)
}
