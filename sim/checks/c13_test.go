package checks

import (
	"fmt"
	"sort"
	"strconv"
	"strings"

	"github.com/codenotary/immudb/embedded/sql"

	"verifsim/simcore"
)

// C13 — SQL transactions are atomic and isolated, incl. rollback and savepoints.
//
// 2-4 session tasks run generated transaction programs (INSERT / UPDATE /
// DELETE / SELECT, COMMIT or ROLLBACK, SAVEPOINT + ROLLBACK TO) over one small
// table; everything a session observes is recorded and compared with a
// reference interpreter: committed transactions are replayed serially in commit
// order (tx id), each in-transaction query must equal interpreter(state before
// the transaction + own earlier statements); rolled back or failed
// transactions must never become visible.

func init() {
	register(&simcore.Check{ID: "C13", Bubble: true, Liveness: true, Body: c13Body, AltBody: c13AltBody, AltPct: 20})
}

type c13Stmt struct {
	SQL      string
	Kind     string // ins | upd | del | sel | sp | rb
	ID, V    int
	Rows     []string // sel result "id=v"
	Err      string
	Affected int
}

type c13Tx struct {
	Session string
	Stmts   []c13Stmt
	TxID    uint64
	Outcome string // committed | rolledback | failed
	// layer B: what COMMIT reported for the whole transaction
	HasTotal bool
	Total    int
}

func c13Body(r *simcore.Run) {
	s := newSQLEnv(r, "sql-0")
	s.mustExec("CREATE TABLE acc (id INTEGER, v INTEGER, PRIMARY KEY id)")
	r.Sched.SetSwitchPct(r.Pick(100, 50, 20))
	nSess := 2 + r.Intn(3)
	per := 1 + r.Intn(5)
	useSavepoints := r.Pct(30)
	var all []*c13Tx
	var tasks []*simcore.Task
	for i := 0; i < nSess; i++ {
		name := fmt.Sprintf("s%d", i)
		tasks = append(tasks, r.Sched.Go(name, func() {
			for j := 0; j < per; j++ {
				r.Yield("c13-tx")
				t := s.c13Program(name, useSavepoints)
				all = append(all, t)
				r.Logf("%s", c13Dump(t))
			}
		}))
	}
	// an observer outside any transaction: sees committed states only
	var observed [][]string
	tasks = append(tasks, r.Sched.Go("observer", func() {
		for i := 0; i < 2+r.Intn(4); i++ {
			r.Yield("c13-observe")
			rows, err := s.query(nil, "SELECT id, v FROM acc")
			if err == nil {
				observed = append(observed, c13Render(rows))
			}
		}
	}))
	// a transaction that changes the schema and writes to the new table commits while the
	// sessions run: from then on every transaction sees the table and its rows as a whole
	side := map[string]string{}
	sideLive := false
	checkSide := func(what string) {
		rows, err := s.query(nil, "SELECT id, v FROM side")
		if err != nil {
			if isBenignTxErr(err) {
				return
			}
			r.Violation("committed-ddl-invisible", "", "%s: the transaction that created table side and inserted into it was committed, a later query of side fails: %v", what, err)
		}
		got := map[string]string{}
		for _, row := range rows {
			got[row[0]] = row[1]
		}
		if fmt.Sprint(got) != fmt.Sprint(side) {
			r.Violation("committed-ddl-invisible", "rows", "%s: table side holds %v, the committed transactions wrote %v", what, got, side)
		}
	}
	if r.Pct(35) {
		tasks = append(tasks, r.Sched.Go("ddl-tx", func() {
			for attempt := 0; attempt < 3 && !sideLive; attempt++ {
				r.Yield("c13-ddl-tx")
				tx, err := s.eng.NewTx(r.Ctx(), sql.DefaultTxOptions().WithExplicitClose(true))
				if err != nil {
					continue
				}
				ok := true
				for _, q := range []string{"CREATE TABLE side (id INTEGER, v INTEGER, PRIMARY KEY id)", "INSERT INTO side (id, v) VALUES (1, 100)"} {
					ntx, _, err := s.exec(tx, q)
					r.Logf("ddl-tx: [tx] %s -> %v", q, err)
					if err != nil {
						if !isBenignTxErr(err) {
							r.Violation("stmt-error", "ddl-tx", "%q failed inside a transaction: %v", q, err)
						}
						ok = false
						break
					}
					if ntx != nil {
						tx = ntx
					}
					r.Yield("c13-ddl-tx-open")
				}
				if !ok {
					if !tx.Closed() {
						tx.Cancel()
					}
					continue
				}
				err = tx.Commit(r.Ctx())
				r.Logf("ddl-tx: COMMIT -> %v", err)
				if err != nil {
					if !isBenignTxErr(err) {
						r.Violation("commit-error", "ddl-tx", "COMMIT of the transaction with CREATE TABLE failed: %v", err)
					}
					continue
				}
				sideLive = true
				side["1"] = "100"
				r.Probe("c13-ddl-transaction-committed")
			}
			if !sideLive {
				return
			}
			for i := 0; i < 1+r.Intn(4); i++ {
				r.Yield("c13-ddl-after")
				checkSide("after the DDL transaction")
				id := strconv.Itoa(2 + i)
				q := "INSERT INTO side (id, v) VALUES (" + id + ", " + id + "00)"
				_, _, err := s.exec(nil, q)
				r.Logf("ddl-tx: %s -> %v", q, err)
				if err == nil {
					side[id] = id + "00"
				} else if !isBenignTxErr(err) {
					r.Violation("committed-ddl-invisible", "insert", "%q failed although the transaction that created the table was committed: %v", q, err)
				}
			}
		}))
	}
	for _, t := range tasks {
		t.Join()
	}
	if sideLive {
		checkSide("after the workload")
	}
	final, err := s.query(nil, "SELECT id, v FROM acc")
	if err != nil {
		r.Violation("scan-error", "", "final scan failed: %v", err)
	}
	c13Analyse(r, all, observed, final)
	s.se.st.Close()
	r.Sig("c13", len(all), useSavepoints)
	nc := 0
	for _, t := range all {
		if t.Outcome == "committed" {
			nc++
		}
	}
	r.Sample(map[string]interface{}{"sessions": nSess, "transactions": len(all), "committed": nc, "savepoints": useSavepoints, "example": c13Dump(all[0])})
}

// c13Analyse: the recorded transactions against the reference interpreter.
func c13Analyse(r *simcore.Run, all []*c13Tx, observed [][]string, final [][]string) {
	// serial replay in commit order
	var committed []*c13Tx
	for _, t := range all {
		if t.Outcome == "committed" {
			if t.TxID == 0 {
				r.Violation("commit", "", "a committed transaction reports no transaction id: %+v", t)
			}
			committed = append(committed, t)
		}
	}
	sort.Slice(committed, func(i, j int) bool { return committed[i].TxID < committed[j].TxID })
	state := map[int]int{}
	states := []string{c13State(state)}
	tainted := false
	for _, t := range committed {
		if why := c13Replay(state, t, true); why != "" {
			if strings.HasPrefix(why, "savepoint:") || tainted {
				r.Finding("savepoint", "C13:rollback-to-savepoint-keeps-writes", "session %s, tx %d: %s\n  program: %s", t.Session, t.TxID, why, c13Dump(t))
				r.EndRun()
			}
			r.Violation("not-serializable", "", "session %s, tx %d is not equivalent to a serial execution in commit order: %s\n  program: %s", t.Session, t.TxID, why, c13Dump(t))
		}
		states = append(states, c13State(state))
		if c13HasSavepointRollback(t) {
			// from here on the real table may hold the writes that the rollback
			// to the savepoint should have undone
			tainted = true
		}
	}
	if got := strings.Join(c13Render(final), ","); got != c13State(state) {
		for _, t := range committed {
			if c13HasSavepointRollback(t) {
				r.Finding("savepoint", "C13:rollback-to-savepoint-keeps-writes", "the final table %s differs from the serial execution %s and a committed transaction used ROLLBACK TO SAVEPOINT", got, c13State(state))
				r.EndRun()
			}
		}
		r.Violation("atomicity", "", "the final table contents %s differ from the serial execution of the committed transactions %s (rolled back or failed transactions must leave no trace)\n  committed: %d of %d transactions", got, c13State(state), len(committed), len(all))
	}
	// whatever the observer saw is one of the committed states
	for _, o := range observed {
		ok := false
		for _, st := range states {
			if st == strings.Join(o, ",") {
				ok = true
			}
		}
		if !ok && !tainted {
			r.Violation("isolation", "", "an observer outside any transaction saw %v, which is not the table after any prefix of the committed transactions %v", o, states)
		}
	}
	// rolled back transactions: their in-transaction view is still snapshot + own changes
	for _, t := range all {
		if t.Outcome != "committed" && len(t.Stmts) > 0 {
			ok := false
			why := ""
			for _, st := range states {
				base := c13Parse(st)
				w := c13Replay(base, t, false)
				if w == "" {
					ok = true
					break
				}
				// report the mismatch against the state that explains most of the program
				if why == "" || c13StmtIndex(strings.TrimPrefix(w, "savepoint: ")) > c13StmtIndex(strings.TrimPrefix(why, "savepoint: ")) {
					why = w
				}
			}
			if !ok && !c13HasSavepointRollback(t) && !tainted {
				r.Violation("isolation", "", "session %s: a transaction that did not commit observed rows that match no committed state plus its own changes: %s\n  program: %s", t.Session, why, c13Dump(t))
			}
		}
	}
}

func c13Render(rows [][]string) []string {
	var out []string
	for _, row := range rows {
		out = append(out, row[0]+"="+row[1])
	}
	sort.Slice(out, func(i, j int) bool {
		a, _ := strconv.Atoi(strings.SplitN(out[i], "=", 2)[0])
		b, _ := strconv.Atoi(strings.SplitN(out[j], "=", 2)[0])
		return a < b
	})
	return out
}

func c13State(m map[int]int) string {
	var ids []int
	for id := range m {
		ids = append(ids, id)
	}
	sort.Ints(ids)
	var out []string
	for _, id := range ids {
		out = append(out, fmt.Sprintf("%d=%d", id, m[id]))
	}
	return strings.Join(out, ",")
}

func c13Parse(s string) map[int]int {
	m := map[int]int{}
	if s == "" {
		return m
	}
	for _, kv := range strings.Split(s, ",") {
		p := strings.SplitN(kv, "=", 2)
		id, _ := strconv.Atoi(p[0])
		v, _ := strconv.Atoi(p[1])
		m[id] = v
	}
	return m
}

func c13HasSavepointRollback(t *c13Tx) bool {
	for _, st := range t.Stmts {
		if st.Kind == "rb" && st.Err == "" {
			return true
		}
	}
	return false
}

func c13Dump(t *c13Tx) string {
	var b strings.Builder
	fmt.Fprintf(&b, "[%s tx=%d %s]", t.Session, t.TxID, t.Outcome)
	for _, st := range t.Stmts {
		fmt.Fprintf(&b, " %s", st.SQL)
		if st.Kind == "sel" {
			fmt.Fprintf(&b, " -> %v;", st.Rows)
		} else if st.Err != "" {
			fmt.Fprintf(&b, " -> ERR %s;", st.Err)
		} else {
			fmt.Fprintf(&b, " -> %d rows;", st.Affected)
		}
	}
	return b.String()
}

// c13Replay interprets the program on state (mutating it when apply is set)
// and compares every recorded observation. Returns "" if they agree.
func c13Replay(state map[int]int, t *c13Tx, apply bool) string {
	why := c13ReplayInner(state, t, apply)
	if why != "" && !strings.HasPrefix(why, "savepoint:") {
		// a mismatch after a successful ROLLBACK TO SAVEPOINT in the same transaction
		for i, st := range t.Stmts {
			if st.Kind == "rb" && st.Err == "" && strings.Contains(why, fmt.Sprintf("statement %d ", i+1)) || (st.Kind == "rb" && st.Err == "" && c13StmtIndex(why) > i) {
				return "savepoint: " + why
			}
		}
	}
	return why
}

func c13StmtIndex(why string) int {
	var i int
	if _, err := fmt.Sscanf(why, "statement %d ", &i); err != nil {
		return -1
	}
	return i
}

func c13ReplayInner(state map[int]int, t *c13Tx, apply bool) string {
	work := map[int]int{}
	for k, v := range state {
		work[k] = v
	}
	var saved map[int]int
	total := 0
	for i, st := range t.Stmts {
		if st.Err != "" && st.Kind != "rb" {
			// a failed statement ends the transaction (the harness cancels it); a
			// duplicate-key failure must be justified by the transaction's own view
			if st.Kind == "ins" && strings.Contains(st.Err, "key already exists") {
				if _, exists := work[st.ID]; !exists {
					return fmt.Sprintf("statement %d (%s) failed with %q although no row with that key exists in the transaction's view (snapshot plus own earlier statements)", i, st.SQL, st.Err)
				}
			}
			continue
		}
		switch st.Kind {
		case "ins":
			if _, exists := work[st.ID]; exists {
				return fmt.Sprintf("statement %d (%s) succeeded although the key exists in the serial execution", i, st.SQL)
			}
			work[st.ID] = st.V
			total++
			if st.Affected >= 0 && st.Affected != 1 {
				return fmt.Sprintf("statement %d (%s) reports %d affected rows, expected 1", i, st.SQL, st.Affected)
			}
		case "upd":
			n := 0
			if _, ok := work[st.ID]; ok {
				work[st.ID] = st.V
				n = 1
			}
			total += n
			if st.Affected >= 0 && st.Affected != n {
				return fmt.Sprintf("statement %d (%s) reports %d affected rows, the serial execution updates %d", i, st.SQL, st.Affected, n)
			}
		case "del":
			n := 0
			if _, ok := work[st.ID]; ok {
				delete(work, st.ID)
				n = 1
			}
			total += n
			if st.Affected >= 0 && st.Affected != n {
				return fmt.Sprintf("statement %d (%s) reports %d affected rows, the serial execution deletes %d", i, st.SQL, st.Affected, n)
			}
		case "sel":
			if got := strings.Join(st.Rows, ","); got != c13State(work) {
				if saved != nil {
					return fmt.Sprintf("savepoint: statement %d (%s) returned %s, the reference interpreter gives %s", i, st.SQL, got, c13State(work))
				}
				return fmt.Sprintf("statement %d (%s) returned %s, the serial execution gives %s", i, st.SQL, got, c13State(work))
			}
		case "log":
			total += st.V // rows appended to the second table
		case "sp":
			saved = map[int]int{}
			for k, v := range work {
				saved[k] = v
			}
		case "rb":
			if st.Err == "" && saved != nil {
				work = map[int]int{}
				for k, v := range saved {
					work[k] = v
				}
			}
		}
	}
	if t.HasTotal && t.Total != total {
		return fmt.Sprintf("COMMIT reports %d affected rows, the serial execution of the transaction affects %d", t.Total, total)
	}
	if apply {
		for k := range state {
			delete(state, k)
		}
		for k, v := range work {
			state[k] = v
		}
	}
	return ""
}

// c13Program runs one explicit transaction and records what the session saw.
func (s *sqlEnv) c13Program(session string, savepoints bool) *c13Tx {
	r := s.r
	rec := &c13Tx{Session: session}
	tx, err := s.eng.NewTx(r.Ctx(), sql.DefaultTxOptions().WithExplicitClose(true))
	if err != nil {
		rec.Outcome = "failed"
		return rec
	}
	n := 1 + r.Intn(5)
	spSet := false
	affectedBefore := 0
	for i := 0; i < n; i++ {
		r.Yield("c13-stmt")
		id, v := r.Intn(5), r.Intn(100)
		var st c13Stmt
		switch w := r.Intn(10); {
		case w < 3:
			st = c13Stmt{Kind: "ins", ID: id, V: v, SQL: fmt.Sprintf("INSERT INTO acc (id, v) VALUES (%d, %d)", id, v)}
		case w < 5:
			st = c13Stmt{Kind: "upd", ID: id, V: v, SQL: fmt.Sprintf("UPDATE acc SET v = %d WHERE id = %d", v, id)}
		case w < 6:
			st = c13Stmt{Kind: "del", ID: id, SQL: fmt.Sprintf("DELETE FROM acc WHERE id = %d", id)}
		case w < 9 || !savepoints:
			st = c13Stmt{Kind: "sel", SQL: "SELECT id, v FROM acc"}
		default:
			if !spSet {
				st = c13Stmt{Kind: "sp", SQL: "SAVEPOINT sp1"}
				spSet = true
			} else {
				st = c13Stmt{Kind: "rb", SQL: "ROLLBACK TO SAVEPOINT sp1"}
			}
		}
		if st.Kind == "sel" {
			rows, err := s.query(tx, st.SQL)
			if err != nil {
				st.Err = err.Error()
			} else {
				st.Rows = c13Render(rows)
			}
			rec.Stmts = append(rec.Stmts, st)
			if err != nil && !isBenignTxErr(err) {
				tx.Cancel()
				r.Violation("stmt-error", "", "%q failed inside a transaction: %v", st.SQL, err)
			}
			continue
		}
		ntx, _, err := s.exec(tx, st.SQL)
		if err != nil {
			st.Err = err.Error()
			rec.Stmts = append(rec.Stmts, st)
			if !isConstraintErr(err) && !isBenignTxErr(err) && st.Kind != "rb" && st.Kind != "sp" {
				if !tx.Closed() {
					tx.Cancel()
				}
				r.Violation("stmt-error", "", "%q failed inside a transaction: %v", st.SQL, err)
			}
			if !tx.Closed() {
				tx.Cancel()
			}
			rec.Outcome = "failed"
			return rec
		}
		if ntx != nil {
			tx = ntx
		}
		st.Affected = tx.UpdatedRows() - affectedBefore
		affectedBefore = tx.UpdatedRows()
		if st.Kind == "rb" {
			affectedBefore = tx.UpdatedRows()
			st.Affected = 0
		}
		rec.Stmts = append(rec.Stmts, st)
	}
	r.Yield("c13-before-end")
	if r.Pct(25) {
		tx.Cancel()
		rec.Outcome = "rolledback"
		return rec
	}
	if err := tx.Commit(r.Ctx()); err != nil {
		rec.Outcome = "failed"
		if !isBenignTxErr(err) && !isConstraintErr(err) && !strings.Contains(err.Error(), "no entries") {
			r.Violation("commit-error", "", "COMMIT failed: %v\n  program: %s", err, c13Dump(rec))
		}
		return rec
	}
	rec.Outcome = "committed"
	if h := tx.TxHeader(); h != nil {
		rec.TxID = h.ID
	} else {
		// nothing was written: the transaction has no place in the commit order
		rec.Outcome = "rolledback"
	}
	return rec
}
