package checks

import (
	"context"
	"errors"
	"fmt"
	"sort"
	"strings"

	"github.com/codenotary/immudb/embedded/document"
	"github.com/codenotary/immudb/embedded/store"
	"github.com/codenotary/immudb/pkg/api/protomodel"
	"google.golang.org/protobuf/types/known/structpb"

	"verifsim/simcore"
)

// C19 — document collections store and find documents faithfully.
//
// document.Engine over the simulated store: a writer task inserts, replaces
// and deletes documents in two twin collections (one with indexes on the
// queried fields, one without; a unique index on one field), indexers lag by
// arbitrary amounts, index maintenance and restarts are interleaved, a query
// task compares id lookups, searches, counts and audits with an in-memory list
// of JSON documents.

func init() {
	register(&simcore.Check{ID: "C19", Bubble: true, Liveness: true, Body: c19Body})
}

type c19Doc struct {
	ID    string
	N     float64 // numeric field, may be absent (NaN marker via HasN)
	HasN  bool
	S     string
	U     float64 // unique in the indexed collection
	Inner string
	Zone  float64 // inner.geo.zone: a path with three elements (the deepest the engine allows by default)
	Revs  int
}

func c19Body(r *simcore.Run) {
	cfg := genStCfg(r, false)
	cfg.Comp = 0
	cfg.Prealloc = false
	cfg.HdrVersion = 1
	cfg.MaxConc = 30
	cfg.MaxActive = 1000
	cfg.FileSize = r.Pick(1<<20, 1<<16)
	cfg.IdxNodeSize = 4096
	cfg.sig(r)
	r.Logf("cfg %+v", cfg)
	se := newStoreEnv(r, cfg, r.Dir("doc-0"))
	var eng *document.Engine
	open := func() {
		opts := se.cfg.options().WithMultiIndexing(true).WithMaxKeyLen(1024).WithMaxValueLen(8192).WithMaxTxEntries(64)
		st, err := store.Open(se.dir, opts)
		if err != nil {
			r.Violation("open", "", "store.Open failed: %v", err)
		}
		se.st = st
		r.Defer(func() { st.Close() })
		eng, err = document.NewEngine(st, document.DefaultOptions().WithPrefix([]byte("doc")))
		if err != nil {
			r.Violation("open", "", "document.NewEngine failed: %v", err)
		}
	}
	open()
	ctx := context.Background()
	fields := []*protomodel.Field{
		{Name: "n", Type: protomodel.FieldType_DOUBLE},
		{Name: "s", Type: protomodel.FieldType_STRING},
		{Name: "u", Type: protomodel.FieldType_DOUBLE},
		{Name: "inner.tag", Type: protomodel.FieldType_STRING},
		{Name: "inner.geo.zone", Type: protomodel.FieldType_DOUBLE},
	}
	must := func(err error, what string) {
		if err != nil {
			r.Violation("ddl", "", "%s failed: %v", what, err)
		}
	}
	must(eng.CreateCollection(ctx, "admin", "indexed", "_id", fields, []*protomodel.Index{{Fields: []string{"n"}}, {Fields: []string{"s"}}, {Fields: []string{"u"}, IsUnique: true}, {Fields: []string{"inner.geo.zone"}}}), "CreateCollection(indexed)")
	must(eng.CreateCollection(ctx, "admin", "plain", "_id", fields, nil), "CreateCollection(plain)")
	r.Sched.SetSwitchPct(r.Pick(100, 50, 20))

	model := map[string]*c19Doc{} // by logical key (same documents in both collections)
	ids := map[string]map[string]string{"indexed": {}, "plain": {}}
	usedU := map[float64]bool{}
	seq := 0
	mk := func(d *c19Doc) *structpb.Struct {
		f := map[string]*structpb.Value{
			"s": structpb.NewStringValue(d.S),
			"u": structpb.NewNumberValue(d.U),
			"inner": structpb.NewStructValue(&structpb.Struct{Fields: map[string]*structpb.Value{
				"tag":   structpb.NewStringValue(d.Inner),
				"geo":   structpb.NewStructValue(&structpb.Struct{Fields: map[string]*structpb.Value{"zone": structpb.NewNumberValue(d.Zone), "name": structpb.NewStringValue("z")}}),
				"extra": structpb.NewListValue(&structpb.ListValue{Values: []*structpb.Value{structpb.NewNumberValue(1), structpb.NewStringValue("ü✓")}}),
			}}),
			"free": structpb.NewBoolValue(true),
		}
		if d.HasN {
			f["n"] = structpb.NewNumberValue(d.N)
		}
		return &structpb.Struct{Fields: f}
	}
	idQuery := func(coll, id string) *protomodel.Query {
		return &protomodel.Query{CollectionName: coll, Expressions: []*protomodel.QueryExpression{{FieldComparisons: []*protomodel.FieldComparison{{Field: "_id", Operator: protomodel.ComparisonOperator_EQ, Value: structpb.NewStringValue(id)}}}}}
	}
	var tasks []*simcore.Task
	tasks = append(tasks, r.Sched.Go("writer", func() {
		for i := 0; i < 4+r.Intn(14); i++ {
			r.Yield("c19-write")
			keys := make([]string, 0, len(model))
			for k := range model {
				keys = append(keys, k)
			}
			sort.Strings(keys)
			switch w := r.Intn(10); {
			case w < 6 || len(keys) == 0:
				seq++
				d := &c19Doc{ID: fmt.Sprintf("d%d", seq), HasN: r.Pct(80), N: float64(r.Intn(5)), S: []string{"alpha", "beta", "gamma", "Ünï"}[r.Intn(4)], U: float64(seq), Inner: []string{"x", "y"}[r.Intn(2)], Zone: float64(r.Intn(4)), Revs: 1}
				if r.Pct(15) && len(usedU) > 0 {
					// a duplicate value for the unique field: must be refused by the indexed collection
					// (the smallest used value: ranging over the map would pick at random)
					first := true
					for u := range usedU {
						if first || u < d.U {
							d.U, first = u, false
						}
					}
					_, _, err := eng.InsertDocument(ctx, "admin", "indexed", mk(d))
					r.Logf("insert duplicate u=%v -> %v", d.U, err)
					if err == nil {
						r.Finding("unique-index", "C19:unique-index-not-enforced-under-index-lag", "a document with u=%v was accepted although another live document holds that value in the unique index: InsertDocuments runs with unsafe MVCC on a snapshot that may be arbitrarily stale, so the uniqueness lookup misses documents whose index entries are not written yet", d.U)
						r.EndRun()
					}
					continue
				}
				for _, coll := range []string{"indexed", "plain"} {
					_, id, err := eng.InsertDocument(ctx, "admin", coll, mk(d))
					if err != nil {
						if isBenignTxErr(err) {
							continue
						}
						r.Violation("insert", "", "InsertDocument into %s failed: %v", coll, err)
					}
					ids[coll][d.ID] = id.EncodeToHexString()
				}
				if len(ids["indexed"][d.ID]) > 0 && len(ids["plain"][d.ID]) > 0 {
					model[d.ID] = d
					usedU[d.U] = true
				}
				r.Logf("insert %+v", *d)
			case w < 8:
				k := keys[r.Intn(len(keys))]
				d := *model[k]
				d.N, d.HasN, d.S, d.Revs = float64(r.Intn(5)), true, []string{"alpha", "beta", "gamma"}[r.Intn(3)], d.Revs+1
				okAll := true
				for _, coll := range []string{"indexed", "plain"} {
					_, err := eng.ReplaceDocuments(ctx, "admin", idQuery(coll, ids[coll][k]), mk(&d))
					if err != nil {
						okAll = false
						if !isBenignTxErr(err) {
							r.Violation("replace", "", "ReplaceDocuments in %s failed: %v", coll, err)
						}
					}
				}
				if okAll {
					model[k] = &d
				} else {
					return // the twins may have diverged: stop writing
				}
				r.Logf("replace %+v", d)
			default:
				k := keys[r.Intn(len(keys))]
				okAll := true
				for _, coll := range []string{"indexed", "plain"} {
					if err := eng.DeleteDocuments(ctx, "admin", idQuery(coll, ids[coll][k])); err != nil {
						okAll = false
						if !isBenignTxErr(err) {
							r.Violation("delete", "", "DeleteDocuments in %s failed: %v", coll, err)
						}
					}
				}
				if !okAll {
					return
				}
				delete(usedU, model[k].U)
				delete(model, k)
				r.Logf("delete %s", k)
			}
		}
	}))
	if r.Pct(50) {
		tasks = append(tasks, r.Sched.Go("maint", func() {
			for i := 0; i < 1+r.Intn(3); i++ {
				r.Yield("c19-maint")
				if r.Bool() {
					se.st.FlushIndexes(float32(r.Pick(0, 50)), r.Bool())
				} else {
					se.st.CompactIndexes()
				}
			}
		}))
	}
	for _, t := range tasks {
		t.Join()
	}
	if r.Sched.MaxSameName("indexer") > 1 {
		return // index restarted by compaction while indexing (C04 finding)
	}
	// replacing by a query that matches several documents: every matched document gets
	// the new content and keeps its own identity
	{
		bfields := []*protomodel.Field{{Name: "n", Type: protomodel.FieldType_DOUBLE}, {Name: "s", Type: protomodel.FieldType_STRING}}
		must(eng.CreateCollection(ctx, "admin", "bulk", "_id", bfields, []*protomodel.Index{{Fields: []string{"s"}}}), "CreateCollection(bulk)")
		type bdoc struct {
			n    float64
			s    string
			revs uint64
		}
		bulk := map[string]*bdoc{}
		for i := 0; i < 3+r.Intn(4); i++ {
			d := &bdoc{n: float64(i), s: []string{"a", "b"}[r.Intn(2)], revs: 1}
			_, id, err := eng.InsertDocument(ctx, "admin", "bulk", &structpb.Struct{Fields: map[string]*structpb.Value{"n": structpb.NewNumberValue(d.n), "s": structpb.NewStringValue(d.s)}})
			if err != nil {
				r.Violation("insert", "", "InsertDocument(bulk) failed: %v", err)
			}
			bulk[id.EncodeToHexString()] = d
		}
		for j := 0; j < 1+r.Intn(3); j++ {
			from, to, nn := []string{"a", "b"}[r.Intn(2)], []string{"a", "b", "c"}[r.Intn(3)], float64(100+j)
			q := &protomodel.Query{CollectionName: "bulk", Expressions: []*protomodel.QueryExpression{{FieldComparisons: []*protomodel.FieldComparison{{Field: "s", Operator: protomodel.ComparisonOperator_EQ, Value: structpb.NewStringValue(from)}}}}}
			revs, err := eng.ReplaceDocuments(ctx, "admin", q, &structpb.Struct{Fields: map[string]*structpb.Value{"n": structpb.NewNumberValue(nn), "s": structpb.NewStringValue(to)}})
			if err != nil {
				r.Violation("replace", "", "ReplaceDocuments(bulk, s == %q) failed: %v", from, err)
			}
			var want, got []string
			for id, d := range bulk {
				if d.s == from {
					want = append(want, id)
					d.n, d.s, d.revs = nn, to, d.revs+1
				}
			}
			for _, rv := range revs {
				got = append(got, rv.DocumentId)
			}
			sort.Strings(want)
			sort.Strings(got)
			r.Logf("bulk replace s==%s -> s=%s n=%v: %d documents", from, to, nn, len(want))
			if fmt.Sprint(want) != fmt.Sprint(got) {
				r.Violation("replace-many", "", "ReplaceDocuments(bulk, s == %q) reports the documents %v, the documents matching the query are %v", from, got, want)
			}
		}
		rd, err := eng.GetDocuments(ctx, &protomodel.Query{CollectionName: "bulk"}, 0)
		if err != nil {
			r.Violation("search-error", "", "GetDocuments(bulk) failed: %v", err)
		}
		seen := 0
		for {
			d, err := rd.Read(ctx)
			if errors.Is(err, document.ErrNoMoreDocuments) {
				break
			}
			if err != nil {
				r.Violation("search-error", "", "reading bulk failed: %v", err)
			}
			f := d.Document.Fields
			id := f["_id"].GetStringValue()
			m := bulk[id]
			if m == nil || f["n"].GetNumberValue() != m.n || f["s"].GetStringValue() != m.s {
				rd.Close()
				r.Violation("replace-many", "", "after replacing by query, document %s of bulk is %v, expected %+v", id, d.Document, m)
			}
			seen++
		}
		rd.Close()
		if seen != len(bulk) {
			r.Violation("replace-many", "", "bulk holds %d documents after replacing by query, expected %d", seen, len(bulk))
		}
	}
	verify := func(what string) int {
		n := 0
		render := func(coll string, q *protomodel.Query) ([]string, error) {
			rd, err := eng.GetDocuments(ctx, q, 0)
			if err != nil {
				return nil, err
			}
			defer rd.Close()
			var out []string
			for {
				d, err := rd.Read(ctx)
				if errors.Is(err, document.ErrNoMoreDocuments) {
					break
				}
				if err != nil {
					return nil, err
				}
				f := d.Document.Fields
				tag := f["inner"].GetStructValue().Fields["tag"].GetStringValue()
				nstr := "absent"
				if v, ok := f["n"]; ok {
					nstr = fmt.Sprint(v.GetNumberValue())
				}
				extra := f["inner"].GetStructValue().Fields["extra"].GetListValue()
				if extra == nil || len(extra.Values) != 2 || extra.Values[1].GetStringValue() != "ü✓" || !f["free"].GetBoolValue() {
					r.Violation("document-content", "", "%s: a document of %s came back with altered fields: %v", what, coll, d.Document)
				}
				if d.Revision == 0 {
					r.Finding("revision", "C19:search-does-not-return-revision", "%s: documents returned by a search carry revision 0 instead of their revision (document_reader.go: 'not yet available via SQL row reader')", what)
				}
				out = append(out, fmt.Sprintf("%s|n=%s|s=%s|u=%v|tag=%s", f["_id"].GetStringValue(), nstr, f["s"].GetStringValue(), f["u"].GetNumberValue(), tag))
			}
			sort.Strings(out)
			return out, nil
		}
		want := func(coll string, pred func(d *c19Doc) bool) []string {
			var out []string
			for k, d := range model {
				if pred(d) {
					nstr := "absent"
					if d.HasN {
						nstr = fmt.Sprint(d.N)
					}
					out = append(out, fmt.Sprintf("%s|n=%s|s=%s|u=%v|tag=%s", ids[coll][k], nstr, d.S, d.U, d.Inner))
				}
			}
			sort.Strings(out)
			return out
		}
		type qcase struct {
			name string
			exp  []*protomodel.QueryExpression
			pred func(d *c19Doc) bool
		}
		k := float64(r.Intn(5))
		sv := []string{"alpha", "beta", "gamma"}[r.Intn(3)]
		cmp := func(f string, op protomodel.ComparisonOperator, v *structpb.Value) *protomodel.FieldComparison {
			return &protomodel.FieldComparison{Field: f, Operator: op, Value: v}
		}
		cases := []qcase{
			{"all", nil, func(d *c19Doc) bool { return true }},
			{fmt.Sprintf("n >= %v", k), []*protomodel.QueryExpression{{FieldComparisons: []*protomodel.FieldComparison{cmp("n", protomodel.ComparisonOperator_GE, structpb.NewNumberValue(k))}}}, func(d *c19Doc) bool { return d.HasN && d.N >= k }},
			{fmt.Sprintf("n < %v AND s = %s", k, sv), []*protomodel.QueryExpression{{FieldComparisons: []*protomodel.FieldComparison{cmp("n", protomodel.ComparisonOperator_LT, structpb.NewNumberValue(k)), cmp("s", protomodel.ComparisonOperator_EQ, structpb.NewStringValue(sv))}}}, func(d *c19Doc) bool { return d.HasN && d.N < k && d.S == sv }},
			{fmt.Sprintf("s = %s OR inner.tag = x", sv), []*protomodel.QueryExpression{{FieldComparisons: []*protomodel.FieldComparison{cmp("s", protomodel.ComparisonOperator_EQ, structpb.NewStringValue(sv))}}, {FieldComparisons: []*protomodel.FieldComparison{cmp("inner.tag", protomodel.ComparisonOperator_EQ, structpb.NewStringValue("x"))}}}, func(d *c19Doc) bool { return d.S == sv || d.Inner == "x" }},
			{fmt.Sprintf("inner.geo.zone = %v", k), []*protomodel.QueryExpression{{FieldComparisons: []*protomodel.FieldComparison{cmp("inner.geo.zone", protomodel.ComparisonOperator_EQ, structpb.NewNumberValue(k))}}}, func(d *c19Doc) bool { return d.Zone == k }},
			{fmt.Sprintf("inner.tag = y OR inner.geo.zone >= %v OR s = %s", k, sv), []*protomodel.QueryExpression{{FieldComparisons: []*protomodel.FieldComparison{cmp("inner.tag", protomodel.ComparisonOperator_EQ, structpb.NewStringValue("y"))}}, {FieldComparisons: []*protomodel.FieldComparison{cmp("inner.geo.zone", protomodel.ComparisonOperator_GE, structpb.NewNumberValue(k))}}, {FieldComparisons: []*protomodel.FieldComparison{cmp("s", protomodel.ComparisonOperator_EQ, structpb.NewStringValue(sv))}}}, func(d *c19Doc) bool { return d.Inner == "y" || d.Zone >= k || d.S == sv }},
			{fmt.Sprintf("s != %s", sv), []*protomodel.QueryExpression{{FieldComparisons: []*protomodel.FieldComparison{cmp("s", protomodel.ComparisonOperator_NE, structpb.NewStringValue(sv))}}}, func(d *c19Doc) bool { return d.S != sv }},
		}
		for _, c := range cases {
			var results [2][]string
			for ci, coll := range []string{"indexed", "plain"} {
				q := &protomodel.Query{CollectionName: coll, Expressions: c.exp}
				got, err := render(coll, q)
				if err != nil {
					r.Violation("query-error", "", "%s: query %q on %s failed: %v", what, c.name, coll, err)
				}
				w := want(coll, c.pred)
				if fmt.Sprint(got) != fmt.Sprint(w) && strings.Contains(c.name, "n <") {
					// known: a '<' range on a DOUBLE field also returns documents without the field
					extraOnlyAbsent := len(got) >= len(w)
					wset := map[string]bool{}
					for _, x := range w {
						wset[x] = true
					}
					for _, g := range got {
						if !wset[g] && !strings.Contains(g, "|n=absent|") {
							extraOnlyAbsent = false
						}
					}
					if extraOnlyAbsent {
						r.Finding("search-result", "C19:less-than-on-double-matches-missing-field", "%s: query %q on %s returned %v, expected %v: documents that do not have the numeric field satisfy a '<' comparison on it (NULL sorts first in the index range and the predicate is not re-evaluated)", what, c.name, coll, got, w)
						for _, g := range got {
							results[ci] = append(results[ci], g[strings.Index(g, "|"):])
						}
						continue
					}
				}
				if fmt.Sprint(got) != fmt.Sprint(w) {
					r.Violation("search-result", "", "%s: query %q on collection %s returned %v, the stored documents that satisfy it are %v", what, c.name, coll, got, w)
				}
				cnt, err := eng.CountDocuments(ctx, q, 0)
				if err != nil || int(cnt) != len(w) {
					r.Violation("count", "", "%s: CountDocuments(%q) on %s = %d (%v), expected %d", what, c.name, coll, cnt, err, len(w))
				}
				// strip ids to compare the twins
				for _, g := range got {
					results[ci] = append(results[ci], g[strings.Index(g, "|"):])
				}
				sort.Strings(results[ci])
				n++
			}
			if fmt.Sprint(results[0]) != fmt.Sprint(results[1]) {
				r.Violation("index-dependent", "", "%s: query %q returns %v with indexes and %v without", what, c.name, results[0], results[1])
			}
		}
		// audit trail: every revision in order
		auditKeys := make([]string, 0, len(model))
		for k := range model {
			auditKeys = append(auditKeys, k)
		}
		sort.Strings(auditKeys)
		for _, key := range auditKeys {
			d := model[key]
			for _, coll := range []string{"indexed", "plain"} {
				id, err := document.NewDocumentIDFromHexEncodedString(ids[coll][key])
				if err != nil {
					r.Trouble("bad document id %q: %v", ids[coll][key], err)
				}
				revs, err := eng.AuditDocument(ctx, coll, id, false, 0, 50, true)
				if err != nil {
					r.Violation("audit", "", "%s: AuditDocument(%s) in %s failed: %v", what, key, coll, err)
				}
				if len(revs) != d.Revs {
					r.Violation("audit", "", "%s: the audit trail of %s in %s lists %d revisions, it was written %d times", what, key, coll, len(revs), d.Revs)
				}
				for i, rv := range revs {
					if rv.Revision != uint64(i+1) {
						r.Violation("audit", "", "%s: the audit trail of %s in %s is not in revision order: %v", what, key, coll, revs)
					}
				}
			}
			break
		}
		return n
	}
	groups := verify("after the workload")
	if r.Pct(40) {
		if err := se.st.Close(); err != nil {
			r.Violation("close", "", "Close failed: %v", err)
		}
		open()
		r.Probe("c19-restart")
		groups += verify("after restart")
	}
	se.st.Close()
	r.Sig("c19", len(model), groups)
	r.Sample(map[string]interface{}{"documents": len(model), "queries": groups})
}
