package checks

import (
	"context"
	"errors"
	"fmt"
	"os"
	"sort"
	"strings"
	"time"

	"github.com/anishathalye/porcupine"

	"github.com/codenotary/immudb/embedded/logger"
	"github.com/codenotary/immudb/embedded/sql"
	"github.com/codenotary/immudb/embedded/store"
	"github.com/codenotary/immudb/pkg/api/schema"
	"github.com/codenotary/immudb/pkg/database"

	"verifsim/simcore"
)

// C06 — key-value API is linearizable; conditional writes are atomic.
//
// System: a real pkg/database.DB (store, KV/SQL/document indexers) inside the
// bubble; 2-5 client tasks call Set / multi-key Set / Set with preconditions /
// Delete / Get / Scan / History concurrently; every call and return is stamped
// with the simulator's global event sequence number.

func init() {
	register(&simcore.Check{ID: "C06", Bubble: true, Liveness: true, Body: c06Body})
}

type nopMultiDB struct{}

func (h *nopMultiDB) ListDatabases(ctx context.Context) ([]string, error) {
	return nil, sql.ErrNoSupported
}
func (h *nopMultiDB) CreateDatabase(ctx context.Context, db string, ifNotExists bool) error {
	return sql.ErrNoSupported
}
func (h *nopMultiDB) UseDatabase(ctx context.Context, db string) error { return sql.ErrNoSupported }
func (h *nopMultiDB) GetLoggedUser(ctx context.Context) (sql.User, error) {
	return simSysAdmin{}, nil
}

// simSysAdmin: the user on whose behalf the harness runs SQL through pkg/database.
type simSysAdmin struct{}

func (simSysAdmin) Username() string           { return "immudb" }
func (simSysAdmin) Permission() sql.Permission { return sql.PermissionSysAdmin }
func (simSysAdmin) SQLPrivileges() []sql.SQLPrivilege {
	return []sql.SQLPrivilege{sql.SQLPrivilegeSelect, sql.SQLPrivilegeCreate, sql.SQLPrivilegeInsert, sql.SQLPrivilegeUpdate, sql.SQLPrivilegeDelete, sql.SQLPrivilegeDrop, sql.SQLPrivilegeAlter}
}
func (h *nopMultiDB) ListUsers(ctx context.Context) ([]sql.User, error) {
	return nil, sql.ErrNoSupported
}
func (h *nopMultiDB) CreateUser(ctx context.Context, username, password string, permission sql.Permission) error {
	return sql.ErrNoSupported
}
func (h *nopMultiDB) AlterUser(ctx context.Context, username, password string, permission sql.Permission) error {
	return sql.ErrNoSupported
}
func (h *nopMultiDB) GrantSQLPrivileges(ctx context.Context, database, username string, privileges []sql.SQLPrivilege) error {
	return sql.ErrNoSupported
}
func (h *nopMultiDB) RevokeSQLPrivileges(ctx context.Context, database, username string, privileges []sql.SQLPrivilege) error {
	return sql.ErrNoSupported
}
func (h *nopMultiDB) DropUser(ctx context.Context, username string) error { return sql.ErrNoSupported }
func (h *nopMultiDB) ExecPreparedStmts(ctx context.Context, opts *sql.TxOptions, stmts []sql.SQLStmt, params map[string]interface{}) (ntx *sql.SQLTx, committedTxs []*sql.SQLTx, err error) {
	return nil, nil, sql.ErrNoSupported
}

// openDB opens a database with the given store configuration.
func openDB(r *simcore.Run, root string, cfg stCfg, mod func(*database.Options)) (database.DB, error) {
	opts := database.DefaultOptions().WithDBRootPath(root).WithStoreOptions(cfg.options().WithMaxKeyLen(256).WithMaxValueLen(4096).WithMaxTxEntries(64))
	if mod != nil {
		mod(opts)
	}
	var d database.DB
	var err error
	ml := logger.NewMemoryLogger()
	if os.Getenv("VERIF_STORE_LOG") != "" {
		ml = logger.NewMemoryLoggerWithLevel(logger.LogWarn)
		opts.WithStoreOptions(opts.GetStoreOptions().WithLogger(ml))
		r.Defer(func() {
			for _, l := range ml.GetLogs() {
				r.Logf("storelog: %s", l)
			}
		})
	}
	pv, stack := r.Catch(func() {
		if _, serr := osStat(root + "/db"); serr == nil {
			d, err = database.OpenDB("db", &nopMultiDB{}, opts, ml)
		} else {
			d, err = database.NewDB("db", &nopMultiDB{}, opts, ml)
		}
	})
	if pv != nil {
		r.Violation("panic", "", "opening the database panicked: %v\n%s", pv, stack)
	}
	return d, err
}

type c06Op struct {
	Client   int
	Kind     string // set | mset | pset | del | get | getat | getrev | getall | scan | hist | ref | getref | zadd | zscan
	Score    int    // zadd
	Rev      int64  // getrev
	Keys     []string
	Vals     []string
	Via      string // mset: "" (Set) | execall
	AtTx     uint64 // getat
	Pre      string // pset: exist | notexist | notmod
	PreKey   string
	PreTx    uint64
	Call     int64
	Ret      int64
	TxID     uint64 // writes: id; get: tx of the returned version
	Err      string
	NotFound bool
	Got      []string // get: [value]; scan: k=v pairs; hist: values
	GotTx    []uint64
	NoWait   bool   // writes: return without waiting for the index (reads keep their default waiting semantics)
	Limit    uint64 // scan
	Offset   uint64 // scan
	Desc     bool   // scan
}

var c06Keys = []string{"a", "b", "c", "d"}

func c06Body(r *simcore.Run) {
	cfg := genStCfg(r, false)
	cfg.Comp = 0
	cfg.Prealloc = false
	cfg.FileSize = r.Pick(1<<20, 4096, 1024)
	cfg.IdxNodeSize = 4096
	cfg.HdrVersion = 1 // logical deletion needs entry metadata
	cfg.MaxConc = 30
	cfg.sig(r)
	r.Logf("cfg %+v", cfg)
	root := r.Dir("db-0")
	d, err := openDB(r, root, cfg, nil)
	if err != nil {
		r.Violation("open-new", "", "cannot create a database: %v", err)
	}
	r.Defer(func() { d.Close() })
	r.Sched.SetSwitchPct(r.Pick(100, 50, 20))
	var ops []*c06Op
	nClients := 2 + r.Intn(4)
	per := 2 + r.Intn(7)
	valSeq := 0
	var tasks []*simcore.Task
	for c := 0; c < nClients; c++ {
		c := c
		tasks = append(tasks, r.Sched.Go(fmt.Sprintf("cl%d", c), func() {
			ctx := context.Background()
			for i := 0; i < per; i++ {
				r.Yield("c06-op")
				op := &c06Op{Client: c}
				k := c06Keys[r.Intn(len(c06Keys))]
				nv := func() string { valSeq++; return fmt.Sprintf("v%d", valSeq) }
				switch w := r.Intn(24); {
				case w == 20:
					// a reference to k under the fixed reference key "r"+k
					op.Kind, op.Keys = "ref", []string{k}
				case w == 21:
					if r.Bool() {
						op.Kind, op.Keys = "getref", []string{k}
					} else {
						op.Kind, op.Keys, op.Rev = "getrev", []string{k}, int64(r.Pick(1, 2, 3, -1, -2))
					}
				case w == 22:
					op.Kind, op.Keys, op.Score = "zadd", []string{k}, 1+r.Intn(3)
				case w == 23:
					op.Kind = "zscan"
				case w < 5:
					op.Kind, op.Keys, op.Vals = "set", []string{k}, []string{nv()}
				case w < 7:
					k2 := c06Keys[r.Intn(len(c06Keys))]
					if k2 == k {
						op.Kind, op.Keys, op.Vals = "set", []string{k}, []string{nv()}
					} else {
						op.Kind, op.Keys, op.Vals = "mset", []string{k, k2}, []string{nv(), nv()}
					}
				case w < 10:
					op.Kind, op.Keys, op.Vals = "pset", []string{k}, []string{nv()}
					op.PreKey = c06Keys[r.Intn(len(c06Keys))]
					op.Pre = []string{"exist", "notexist", "notmod"}[r.Intn(3)]
					op.PreTx = 1 + uint64(r.Intn(8))
				case w < 12:
					op.Kind, op.Keys = "del", []string{k}
				case w < 16:
					op.Kind, op.Keys = "get", []string{k}
				case w < 17:
					op.Kind, op.Keys, op.Rev = "getrev", []string{k}, int64(r.Pick(1, 2, 3, -1, -2))
				case w < 18:
					op.Kind = "scan"
				case w < 19:
					switch r.Intn(3) {
					case 0: // the same atomic batch through ExecAll
						k2 := c06Keys[r.Intn(len(c06Keys))]
						if k2 == k {
							op.Kind, op.Keys, op.Vals = "set", []string{k}, []string{nv()}
						} else {
							op.Kind, op.Keys, op.Vals, op.Via = "mset", []string{k, k2}, []string{nv(), nv()}, "execall"
						}
					case 1:
						k2 := c06Keys[r.Intn(len(c06Keys))]
						if k2 == k {
							k2 = c06Keys[(r.Intn(len(c06Keys)-1)+1+strings.Index("abcd", k))%len(c06Keys)]
						}
						op.Kind, op.Keys = "getall", []string{k, k2}
					default:
						// a read at the transaction of an earlier write of this key that has returned
						op.Kind, op.Keys = "get", []string{k}
						for _, w := range ops {
							if w.TxID != 0 && (w.Kind == "set" || w.Kind == "mset" || w.Kind == "pset") {
								for _, wk := range w.Keys {
									if wk == k {
										op.AtTx = w.TxID
									}
								}
							}
						}
						if op.AtTx != 0 {
							op.Kind = "getat"
						}
					}
				default:
					op.Kind, op.Keys = "hist", []string{k}
				}
				if (op.Kind == "set" || op.Kind == "mset") && r.Pct(30) {
					op.NoWait = true
				}
				if op.Kind == "scan" && r.Pct(60) {
					op.Limit, op.Offset, op.Desc = uint64(r.Intn(4)), uint64(r.Intn(3)), r.Pct(30)
				}
				op.Call = r.Seq()
				c06Exec(ctx, d, op)
				op.Ret = r.Seq()
				ops = append(ops, op)
				r.Logf("cl%d %s %v %v -> tx=%d nf=%v err=%q got=%v", c, op.Kind, op.Keys, op.Vals, op.TxID, op.NotFound, op.Err, op.Got)
			}
		}))
	}
	if r.Pct(50) {
		tasks = append(tasks, r.Sched.Go("maint", func() {
			for i := 0; i < 1+r.Intn(3); i++ {
				r.Yield("c06-maint")
				if r.Bool() {
					d.FlushIndex(&schema.FlushIndexRequest{CleanupPercentage: float32(r.Pick(0, 50)), Synced: r.Bool()})
				} else {
					d.CompactIndex()
				}
			}
		}))
	}
	for _, t := range tasks {
		t.Join()
	}
	c06Check(r, ops)
	if r.Sched.MaxSameName("indexer") > 1 {
		r.Probe("c06-indexer-overlap")
	}
	r.Sample(map[string]interface{}{"config": cfg, "clients": nClients, "ops_per_client": per, "history": ops[:min(len(ops), 12)]})
}

func c06Exec(ctx context.Context, d database.DB, op *c06Op) {
	fail := func(err error) {
		if errors.Is(err, store.ErrKeyNotFound) {
			op.NotFound = true
			return
		}
		op.Err = err.Error()
	}
	switch op.Kind {
	case "set", "mset", "pset":
		req := &schema.SetRequest{}
		for i, k := range op.Keys {
			req.KVs = append(req.KVs, &schema.KeyValue{Key: []byte(k), Value: []byte(op.Vals[i])})
		}
		if op.Kind == "pset" {
			switch op.Pre {
			case "exist":
				req.Preconditions = []*schema.Precondition{schema.PreconditionKeyMustExist([]byte(op.PreKey))}
			case "notexist":
				req.Preconditions = []*schema.Precondition{schema.PreconditionKeyMustNotExist([]byte(op.PreKey))}
			default:
				req.Preconditions = []*schema.Precondition{schema.PreconditionKeyNotModifiedAfterTX([]byte(op.PreKey), op.PreTx)}
			}
		}
		if op.Via == "execall" {
			ea := &schema.ExecAllRequest{NoWait: op.NoWait}
			for _, kv := range req.KVs {
				ea.Operations = append(ea.Operations, &schema.Op{Operation: &schema.Op_Kv{Kv: kv}})
			}
			hdr, err := d.ExecAll(ctx, ea)
			if err != nil {
				fail(err)
				return
			}
			op.TxID = hdr.Id
			return
		}
		req.NoWait = op.NoWait
		hdr, err := d.Set(ctx, req)
		if err != nil {
			fail(err)
			return
		}
		op.TxID = hdr.Id
	case "del":
		hdr, err := d.Delete(ctx, &schema.DeleteKeysRequest{Keys: [][]byte{[]byte(op.Keys[0])}})
		if err != nil {
			fail(err)
			return
		}
		op.TxID = hdr.Id
	case "get":
		e, err := d.Get(ctx, &schema.KeyRequest{Key: []byte(op.Keys[0])})
		if err != nil {
			fail(err)
			return
		}
		op.Got, op.TxID = []string{string(e.Value)}, e.Tx
		op.GotTx = []uint64{e.Revision}
	case "getat":
		e, err := d.Get(ctx, &schema.KeyRequest{Key: []byte(op.Keys[0]), AtTx: op.AtTx})
		if err != nil {
			fail(err)
			return
		}
		op.Got, op.TxID = []string{string(e.Value)}, e.Tx
	case "getall":
		es, err := d.GetAll(ctx, &schema.KeyListRequest{Keys: [][]byte{[]byte(op.Keys[0]), []byte(op.Keys[1])}})
		if err != nil {
			fail(err)
			return
		}
		for _, e := range es.Entries {
			op.Got = append(op.Got, string(e.Key)+"="+string(e.Value))
		}
	case "scan":
		es, err := d.Scan(ctx, &schema.ScanRequest{Limit: op.Limit, Offset: op.Offset, Desc: op.Desc})
		if err != nil {
			fail(err)
			return
		}
		for _, e := range es.Entries {
			if e.ReferencedBy != nil {
				op.Got = append(op.Got, string(e.ReferencedBy.Key)+"->"+string(e.Key)+"="+string(e.Value))
			} else {
				op.Got = append(op.Got, string(e.Key)+"="+string(e.Value))
			}
			op.GotTx = append(op.GotTx, e.Tx)
		}
	case "ref":
		hdr, err := d.SetReference(ctx, &schema.ReferenceRequest{Key: []byte("r" + op.Keys[0]), ReferencedKey: []byte(op.Keys[0])})
		if err != nil {
			fail(err)
			return
		}
		op.TxID = hdr.Id
	case "getref":
		e, err := d.Get(ctx, &schema.KeyRequest{Key: []byte("r" + op.Keys[0])})
		if err != nil {
			fail(err)
			return
		}
		op.Got, op.TxID = []string{string(e.Key) + "=" + string(e.Value)}, e.Tx
		if e.ReferencedBy == nil {
			op.Got[0] = "(no reference) " + op.Got[0]
		}
	case "getrev":
		e, err := d.Get(ctx, &schema.KeyRequest{Key: []byte(op.Keys[0]), AtRevision: op.Rev})
		if err != nil {
			fail(err)
			return
		}
		op.Got, op.TxID = []string{string(e.Value)}, e.Tx
	case "zadd":
		hdr, err := d.ZAdd(ctx, &schema.ZAddRequest{Set: []byte("z"), Score: float64(op.Score), Key: []byte(op.Keys[0])})
		if err != nil {
			fail(err)
			return
		}
		op.TxID = hdr.Id
	case "zscan":
		es, err := d.ZScan(ctx, &schema.ZScanRequest{Set: []byte("z")})
		if err != nil {
			fail(err)
			return
		}
		for _, e := range es.Entries {
			op.Got = append(op.Got, fmt.Sprintf("%d:%s=%s", int(e.Score), e.Key, e.Entry.GetValue()))
		}
	case "hist":
		es, err := d.History(ctx, &schema.HistoryRequest{Key: []byte(op.Keys[0])})
		if err != nil {
			fail(err)
			return
		}
		for _, e := range es.Entries {
			op.Got = append(op.Got, string(e.Value))
			op.GotTx = append(op.GotTx, e.Tx)
		}
	}
}

type c06Ver struct {
	Val     string
	Tx      uint64
	Deleted bool
}

// c06Check: (a) every read must equal the model at some state between the
// last write that returned before it was invoked and the last write invoked
// before it returned; precondition writes succeed iff the precondition holds on
// the state just before them; (b) porcupine on the per-key register histories.
func c06Check(r *simcore.Run, ops []*c06Op) {
	// total order of writes by tx id
	byID := map[uint64]*c06Op{}
	var maxID uint64
	for _, op := range ops {
		if op.TxID != 0 && (op.Kind == "set" || op.Kind == "mset" || op.Kind == "pset" || op.Kind == "del" || op.Kind == "ref" || op.Kind == "zadd") {
			if prev, dup := byID[op.TxID]; dup {
				r.Violation("id-reassigned", "", "two writes returned the same transaction id %d: %+v and %+v", op.TxID, prev, op)
			}
			byID[op.TxID] = op
			if op.TxID > maxID {
				maxID = op.TxID
			}
		}
	}
	// states: per key version lists after each id (ids not produced by recorded writes keep the state)
	type state map[string][]c06Ver
	states := make([]state, maxID+1)
	cur := state{}
	states[0] = cur
	for id := uint64(1); id <= maxID; id++ {
		next := state{}
		for k, v := range cur {
			next[k] = v
		}
		if op := byID[id]; op != nil {
			for i, k := range op.Keys {
				switch op.Kind {
				case "ref":
					k = "r:" + k // model key of the reference to k
				case "zadd":
					k = fmt.Sprintf("z:%d:%s", op.Score, k) // model key of a sorted-set member
				}
				nv := append([]c06Ver(nil), next[k]...)
				switch op.Kind {
				case "del":
					nv = append(nv, c06Ver{Tx: id, Deleted: true})
				case "ref", "zadd":
					nv = append(nv, c06Ver{Tx: id})
				default:
					nv = append(nv, c06Ver{Val: op.Vals[i], Tx: id})
				}
				next[k] = nv
			}
		}
		cur = next
		states[id] = cur
	}
	live := func(s state, k string) (c06Ver, bool) {
		vs := s[k]
		if len(vs) == 0 || vs[len(vs)-1].Deleted {
			return c06Ver{}, false
		}
		return vs[len(vs)-1], true
	}
	bounds := func(op *c06Op) (uint64, uint64) {
		var lo, hi uint64
		for _, w := range ops {
			if w.TxID == 0 || byID[w.TxID] != w {
				continue
			}
			if w.Ret < op.Call && w.TxID > lo {
				lo = w.TxID
			}
			if w.Call < op.Ret && w.TxID > hi {
				hi = w.TxID
			}
		}
		if hi < lo {
			hi = lo
		}
		return lo, hi
	}
	preHolds := func(s state, op *c06Op) bool {
		switch op.Pre {
		case "exist":
			_, ok := live(s, op.PreKey)
			return ok
		case "notexist":
			_, ok := live(s, op.PreKey)
			return !ok
		default:
			vs := s[op.PreKey]
			return len(vs) == 0 || vs[len(vs)-1].Tx <= op.PreTx
		}
	}
	for _, op := range ops {
		lo, hi := bounds(op)
		switch {
		case (op.Kind == "ref" || op.Kind == "zadd") && op.TxID != 0:
			r.Probe("c06-" + op.Kind + "-applied")
		case (op.Kind == "getref" || op.Kind == "getrev") && len(op.Got) > 0:
			r.Probe("c06-" + op.Kind + "-found")
		case op.Kind == "zscan" && len(op.Got) > 0:
			r.Probe("c06-zscan-nonempty")
		}
		switch op.Kind {
		case "get":
			ok := false
			for s := lo; s <= hi && !ok; s++ {
				v, found := live(states[s], op.Keys[0])
				if op.NotFound {
					ok = !found
				} else if op.Err == "" {
					ok = found && v.Val == op.Got[0] && v.Tx == op.TxID && op.GotTx[0] == uint64(len(states[s][op.Keys[0]]))
				}
			}
			if op.Err != "" {
				r.Violation("read-error", "", "Get(%q) failed: %s", op.Keys[0], op.Err)
			}
			if !ok {
				c06Viol(r, "not-linearizable", "client %d: Get(%q) returned (%v, tx %d, notfound=%v) which matches no state between tx %d and tx %d (call %d, return %d)\n  history: %s", op.Client, op.Keys[0], op.Got, op.TxID, op.NotFound, lo, hi, op.Call, op.Ret, c06Dump(ops))
			}
		case "getat":
			// the version written by that transaction, whatever happened since
			want, okv := "", false
			for _, v := range states[maxID][op.Keys[0]] {
				if v.Tx == op.AtTx && !v.Deleted {
					want, okv = v.Val, true
				}
			}
			if op.AtTx > maxID || !okv {
				continue // the write did not make it into the recorded order
			}
			if op.Err != "" || op.NotFound || op.Got[0] != want || op.TxID != op.AtTx {
				c06Viol(r, "not-linearizable", "client %d: Get(%q, AtTx %d) returned (%v, tx %d, notfound=%v, err %q); that transaction wrote %q\n  history: %s", op.Client, op.Keys[0], op.AtTx, op.Got, op.TxID, op.NotFound, op.Err, want, c06Dump(ops))
			}
		case "getall":
			if op.Err != "" {
				r.Violation("read-error", "", "GetAll failed: %s", op.Err)
			}
			ok := false
			for s := lo; s <= hi && !ok; s++ {
				var want []string
				seen := map[string]bool{}
				for _, k := range op.Keys {
					if v, found := live(states[s], k); found && !seen[k] {
						want = append(want, k+"="+v.Val)
					}
					seen[k] = true
				}
				got := append([]string(nil), op.Got...)
				sort.Strings(want)
				sort.Strings(got)
				ok = strings.Join(want, ",") == strings.Join(got, ",")
			}
			if !ok {
				c06Viol(r, "not-linearizable", "client %d: GetAll(%v) returned %v which matches no state between tx %d and tx %d\n  history: %s", op.Client, op.Keys, op.Got, lo, hi, c06Dump(ops))
			}
		case "scan":
			if op.Err != "" {
				r.Violation("read-error", "", "Scan failed: %s", op.Err)
			}
			ok := false
			for s := lo; s <= hi && !ok; s++ {
				var want []string
				for _, k := range c06Keys {
					if v, found := live(states[s], k); found {
						want = append(want, k+"="+v.Val)
					}
				}
				sort.Strings(want)
				// references follow ("ra" > "d"), resolved within the same state
				for _, k := range c06Keys {
					if v, found := live(states[s], k); found && len(states[s]["r:"+k]) > 0 {
						want = append(want, "r"+k+"->"+k+"="+v.Val)
					}
				}
				// the whole list is in ascending key order ("ra" > "d"): direction, offset and limit apply to it
				if op.Desc {
					for x, y := 0, len(want)-1; x < y; x, y = x+1, y-1 {
						want[x], want[y] = want[y], want[x]
					}
				}
				if op.Offset > 0 {
					want = want[min(int(op.Offset), len(want)):]
				}
				if op.Limit > 0 && int(op.Limit) < len(want) {
					want = want[:op.Limit]
				}
				ok = strings.Join(want, ",") == strings.Join(op.Got, ",")
			}
			if !ok {
				c06Viol(r, "not-linearizable", "client %d: Scan(limit %d offset %d desc %v) returned %v which matches no state between tx %d and tx %d\n  history: %s", op.Client, op.Limit, op.Offset, op.Desc, op.Got, lo, hi, c06Dump(ops))
			}
		case "getref":
			if op.Err != "" {
				r.Violation("read-error", "", "Get(%q) failed: %s", "r"+op.Keys[0], op.Err)
			}
			ok := false
			for s := lo; s <= hi && !ok; s++ {
				v, found := live(states[s], op.Keys[0])
				found = found && len(states[s]["r:"+op.Keys[0]]) > 0
				if op.NotFound {
					ok = !found
				} else {
					ok = found && op.Got[0] == op.Keys[0]+"="+v.Val && v.Tx == op.TxID
				}
			}
			if !ok {
				c06Viol(r, "not-linearizable", "client %d: Get of the reference to %q returned (%v, tx %d, notfound=%v) which matches no state between tx %d and tx %d\n  history: %s", op.Client, op.Keys[0], op.Got, op.TxID, op.NotFound, lo, hi, c06Dump(ops))
			}
		case "getrev":
			missing := op.NotFound || strings.Contains(op.Err, "revision")
			if op.Err != "" && !missing {
				r.Violation("read-error", "", "Get(%q, revision %d) failed: %s", op.Keys[0], op.Rev, op.Err)
			}
			ok := false
			for s := lo; s <= hi && !ok; s++ {
				vs := states[s][op.Keys[0]]
				idx := int(op.Rev) - 1
				if op.Rev < 0 {
					idx = len(vs) - 1 + int(op.Rev)
				}
				switch {
				case idx < 0 || idx >= len(vs) || vs[idx].Deleted:
					ok = missing
				default:
					ok = !missing && op.Got[0] == vs[idx].Val && op.TxID == vs[idx].Tx
				}
			}
			if !ok {
				c06Viol(r, "not-linearizable", "client %d: Get(%q, revision %d) returned (%v, tx %d, notfound=%v, err %q) which matches no state between tx %d and tx %d\n  history: %s", op.Client, op.Keys[0], op.Rev, op.Got, op.TxID, op.NotFound, op.Err, lo, hi, c06Dump(ops))
			}
		case "zscan":
			if op.Err != "" {
				r.Violation("read-error", "", "ZScan failed: %s", op.Err)
			}
			ok := false
			for s := lo; s <= hi && !ok; s++ {
				var want []string
				for score := 1; score <= 3; score++ {
					for _, k := range c06Keys {
						if v, found := live(states[s], k); found && len(states[s][fmt.Sprintf("z:%d:%s", score, k)]) > 0 {
							want = append(want, fmt.Sprintf("%d:%s=%s", score, k, v.Val))
						}
					}
				}
				ok = strings.Join(want, ",") == strings.Join(op.Got, ",")
			}
			if !ok {
				c06Viol(r, "not-linearizable", "client %d: ZScan returned %v which matches no state between tx %d and tx %d\n  history: %s", op.Client, op.Got, lo, hi, c06Dump(ops))
			}
		case "ref", "zadd":
			// the referenced key must exist; SetReference and ZAdd exclude every other request while they run
			if op.TxID != 0 {
				if _, found := live(states[op.TxID-1], op.Keys[0]); !found {
					c06Viol(r, "precondition", "client %d: %s of key %q was applied as tx %d although the key does not exist in the state after tx %d\n  history: %s", op.Client, op.Kind, op.Keys[0], op.TxID, op.TxID-1, c06Dump(ops))
				}
			} else if op.NotFound || strings.Contains(op.Err, "not found") {
				ok := false
				for s := lo; s <= hi && !ok; s++ {
					_, found := live(states[s], op.Keys[0])
					ok = !found
				}
				if !ok {
					c06Viol(r, "precondition", "client %d: %s of key %q was refused as not found although the key exists in every state between tx %d and tx %d\n  history: %s", op.Client, op.Kind, op.Keys[0], lo, hi, c06Dump(ops))
				}
			} else if !strings.Contains(op.Err, "limit exceeded") {
				r.Violation("write-error", "", "%s %v failed: %s", op.Kind, op.Keys, op.Err)
			}
		case "hist":
			if op.NotFound {
				ok := false
				for s := lo; s <= hi && !ok; s++ {
					ok = len(states[s][op.Keys[0]]) == 0
				}
				if !ok {
					c06Viol(r, "not-linearizable", "client %d: History(%q) found nothing although versions existed in every state between tx %d and %d", op.Client, op.Keys[0], lo, hi)
				}
				continue
			}
			if op.Err != "" {
				r.Violation("read-error", "", "History(%q) failed: %s", op.Keys[0], op.Err)
			}
			ok := false
			for s := lo; s <= hi && !ok; s++ {
				vs := states[s][op.Keys[0]]
				if len(vs) != len(op.Got) {
					continue
				}
				ok = true
				for i := range vs {
					if vs[i].Tx != op.GotTx[i] || (!vs[i].Deleted && vs[i].Val != op.Got[i]) {
						ok = false
					}
				}
			}
			if !ok {
				c06Viol(r, "not-linearizable", "client %d: History(%q) returned %v (txs %v) which matches no state between tx %d and tx %d\n  history: %s", op.Client, op.Keys[0], op.Got, op.GotTx, lo, hi, c06Dump(ops))
			}
		case "pset":
			if op.TxID != 0 {
				if !preHolds(states[op.TxID-1], op) {
					c06Viol(r, "precondition", "client %d: conditional write %+v was applied as tx %d although its precondition does not hold on the state after tx %d\n  history: %s", op.Client, *op, op.TxID, op.TxID-1, c06Dump(ops))
				}
			} else if strings.Contains(op.Err, "precondition") {
				ok := false
				for s := lo; s <= hi && !ok; s++ {
					ok = !preHolds(states[s], op)
				}
				if !ok {
					c06Viol(r, "precondition", "client %d: conditional write %+v was refused although its precondition holds in every state between tx %d and tx %d\n  history: %s", op.Client, *op, lo, hi, c06Dump(ops))
				}
			} else if op.Err != "" && !strings.Contains(op.Err, "limit exceeded") {
				r.Violation("write-error", "", "conditional Set failed: %s", op.Err)
			}
		case "del":
			// deleting a key that does not exist is refused
			if op.TxID == 0 && !op.NotFound && op.Err != "" && !strings.Contains(op.Err, "not found") && !strings.Contains(op.Err, "limit exceeded") && !strings.Contains(op.Err, "read conflict") {
				r.Violation("write-error", "", "Delete(%q) failed: %s", op.Keys[0], op.Err)
			}
		default:
			if op.TxID == 0 && !strings.Contains(op.Err, "limit exceeded") {
				r.Violation("write-error", "", "%s %v failed: %s", op.Kind, op.Keys, op.Err)
			}
		}
	}
	// porcupine: per-key register (single-key writes, deletes and gets)
	type in struct {
		write, del bool
		val        string
	}
	type out struct {
		val      string
		notFound bool
	}
	model := porcupine.Model{
		Init: func() interface{} { return "" },
		Step: func(st, input, output interface{}) (bool, interface{}) {
			i := input.(in)
			o := output.(out)
			switch {
			case i.write:
				return true, i.val
			case i.del:
				if o.notFound {
					return st.(string) == "", st
				}
				return st.(string) != "", ""
			default:
				if o.notFound {
					return st.(string) == "", st
				}
				return st.(string) == o.val, st
			}
		},
	}
	for _, k := range c06Keys {
		var pops []porcupine.Operation
		skip := false
		for _, op := range ops {
			if op.Kind == "mset" {
				for _, kk := range op.Keys {
					if kk == k {
						skip = true
					}
				}
			}
			if len(op.Keys) != 1 || op.Keys[0] != k {
				continue
			}
			switch op.Kind {
			case "set":
				if op.TxID != 0 {
					pops = append(pops, porcupine.Operation{ClientId: op.Client, Input: in{write: true, val: op.Vals[0]}, Call: op.Call, Output: out{}, Return: op.Ret})
				}
			case "pset":
				if op.TxID != 0 {
					pops = append(pops, porcupine.Operation{ClientId: op.Client, Input: in{write: true, val: op.Vals[0]}, Call: op.Call, Output: out{}, Return: op.Ret})
				}
			case "del":
				if op.TxID != 0 || op.NotFound || strings.Contains(op.Err, "not found") {
					pops = append(pops, porcupine.Operation{ClientId: op.Client, Input: in{del: true}, Call: op.Call, Output: out{notFound: op.TxID == 0}, Return: op.Ret})
				}
			case "get":
				if op.Err == "" {
					o := out{notFound: op.NotFound}
					if !op.NotFound {
						o.val = op.Got[0]
					}
					pops = append(pops, porcupine.Operation{ClientId: op.Client, Input: in{}, Call: op.Call, Output: o, Return: op.Ret})
				}
			}
		}
		if skip || len(pops) == 0 || len(pops) > 40 {
			continue
		}
		res := porcupine.CheckOperationsTimeout(model, pops, 10*time.Second)
		switch res {
		case porcupine.Illegal:
			c06Viol(r, "not-linearizable", "porcupine: the history of key %q is not linearizable\n  history: %s", k, c06Dump(ops))
		case porcupine.Unknown:
			r.Probe("c06-porcupine-inconclusive")
		default:
			r.Probe("c06-porcupine-ok")
		}
	}
	r.Sig("c06", len(ops), maxID)
}

func c06Dump(ops []*c06Op) string {
	var b strings.Builder
	for _, op := range ops {
		fmt.Fprintf(&b, "\n    [%d..%d] cl%d %s %v=%v pre=%s(%s,%d) -> tx=%d nf=%v err=%q got=%v", op.Call, op.Ret, op.Client, op.Kind, op.Keys, op.Vals, op.Pre, op.PreKey, op.PreTx, op.TxID, op.NotFound, op.Err, op.Got)
	}
	return b.String()
}

// c06Viol reports an anomaly of an index-dependent operation. If two indexing
// goroutines of one index were alive at the same time in this run (the
// structural precondition of the known compaction-restart defect), it is
// attributed to that finding, otherwise it is a violation.
func c06Viol(r *simcore.Run, class, format string, args ...interface{}) {
	if r.Sched != nil && r.Sched.MaxSameName("indexer") > 1 {
		r.Finding(class, "C04:indexer-overlap-after-compaction", "two indexing goroutines ran concurrently on one index after CompactIndex restarted it; then: "+format, args...)
		r.EndRun()
	}
	r.Violation(class, "", format, args...)
}
