package checks

import (
	"bytes"
	"context"
	"crypto/sha256"
	"encoding/binary"
	"errors"
	"fmt"
	"io"
	"strings"
	"time"

	"github.com/codenotary/immudb/cmd/version"
	"github.com/codenotary/immudb/embedded/logger"
	"github.com/codenotary/immudb/pkg/api/schema"
	"github.com/codenotary/immudb/pkg/client"
	"github.com/codenotary/immudb/pkg/database"
	"github.com/codenotary/immudb/pkg/replication"
	"github.com/codenotary/immudb/pkg/stream"
	"github.com/rs/xid"
	"google.golang.org/grpc"
	"google.golang.org/grpc/codes"
	"google.golang.org/grpc/status"

	"verifsim/simcore"
)

// C07, layer C — the real replicator.
//
// Every replica database is fed by a real pkg/replication.TxReplicator: its
// fetch loop, its commit workers, its retry delays (simulated clock), its
// reconnects and its handling of "diverged precommit state" all run as
// scheduled tasks (hooks in replicator.go name the goroutines and gate the
// replicator mutex). The only stub is the transport: the client the
// replicator is given answers OpenSession / ServerInfo / StreamExportTx itself,
// and its export stream hands each request to the primary database's
// ExportTxByID and frames the answer with the real pkg/stream sender, exactly
// as ImmuServer.StreamExportTx does (same metadata keys). The network breaks
// connections (error on send or receive, the stream is dead afterwards),
// refuses reconnects for a while, adds round-trip time and — when the replica
// skips integrity checks and may discard — alters exported bytes; replicas are
// stopped, closed, reopened and given a new replicator. Synchronous (1-2 acks)
// and asynchronous replication.
//
// Oracle: as layer B (commit reported only when enough replicas durably hold
// the transaction; a replica never ahead of, never different from the primary)
// plus bounded liveness: once writers are done and the faults have stopped,
// every replica whose replicator is still running reaches the primary's state
// within a fixed amount of simulated time.

type c07cEnv struct {
	r        *simcore.Run
	prim     database.DB
	sync     bool
	skip     bool
	discard  bool
	quiet    bool   // faults have stopped
	refuse   []int  // connection attempts of replica i still to be refused
	altered  []bool // an altered transaction was delivered to replica i
	discards []int  // discards performed by the replicator of replica i (seen in its log)
	ackedTo  []uint64
	dropped  bool
	reps     []database.DB
	restart  []bool // replica i received an altered transaction: its replicator may retry it forever, an operator restarts it
	lastLog  map[int]string
}

// logOnce drops a line that repeats the previous line of the same replica (polling rounds, retries).
func (e *c07cEnv) logOnce(rep int, f string, a ...interface{}) {
	m := fmt.Sprintf(f, a...)
	if e.lastLog == nil {
		e.lastLog = map[int]string{}
	}
	if e.lastLog[rep] == m {
		return
	}
	e.lastLog[rep] = m
	e.r.Logf("%s", m)
}

type c07cLogger struct {
	logger.Logger
	env *c07cEnv
	rep int
}

func (l *c07cLogger) Infof(f string, a ...interface{}) {
	if strings.HasPrefix(f, "discarding precommit txs") {
		l.env.discards[l.rep]++
		// everything precommitted goes, what had been reported to the primary included
		if st, err := l.env.reps[l.rep].CurrentState(); err == nil && st.TxId+1 <= l.env.ackedTo[l.rep] {
			l.env.dropped = true
		}
	}
	l.env.logOnce(l.rep, "replicator %d: "+f, append([]interface{}{l.rep}, a...)...)
}
func (l *c07cLogger) Errorf(f string, a ...interface{}) {
	l.env.r.Logf("replicator %d: ERROR "+f, append([]interface{}{l.rep}, a...)...)
}
func (l *c07cLogger) Warningf(f string, a ...interface{}) {}
func (l *c07cLogger) Debugf(f string, a ...interface{})   {}
func (l *c07cLogger) Close() error                        { return nil }

// c07cFlakyDB is the replica database as the replicator sees it: now and then ReplicateTx fails a few
// times in a row with a transient error before it goes through (a disk or resource hiccup); the
// replicator has to retry "as many times as necessary".
type c07cFlakyDB struct {
	database.DB
	env      *c07cEnv
	failLeft int
}

func (f *c07cFlakyDB) ReplicateTx(ctx context.Context, exportedTx []byte, skipIntegrityCheck bool, waitForIndexing bool) (*schema.TxHeader, error) {
	e := f.env
	if !e.quiet {
		if f.failLeft == 0 && e.r.Pct(4) {
			f.failLeft = 1 + e.r.Intn(5)
		}
		if f.failLeft > 0 {
			f.failLeft--
			e.r.Fault("replicate-transient-error")
			return nil, errors.New("simulated transient failure of the replica store")
		}
	}
	return f.DB.ReplicateTx(ctx, exportedTx, skipIntegrityCheck, waitForIndexing)
}

type c07cDelayer struct{}

func (c07cDelayer) DelayAfter(retries int) time.Duration {
	d := time.Duration(retries) * 10 * time.Millisecond
	if d > 200*time.Millisecond {
		d = 200 * time.Millisecond
	}
	return d
}

// c07cClient is the transport stub handed to the replicator.
type c07cClient struct {
	client.ImmuClient
	env *c07cEnv
	rep int
}

func (c *c07cClient) OpenSession(ctx context.Context, user, pass []byte, db string) error {
	e := c.env
	e.r.Sched.Sleep(time.Duration(1+e.r.Intn(3)) * time.Millisecond)
	if e.refuse[c.rep] > 0 && !e.quiet {
		e.refuse[c.rep]--
		e.r.Fault("connection-refused")
		return status.Error(codes.Unavailable, "connection refused")
	}
	return nil
}
func (c *c07cClient) CloseSession(ctx context.Context) error { return nil }
func (c *c07cClient) ServerInfo(ctx context.Context, req *schema.ServerInfoRequest) (*schema.ServerInfoResponse, error) {
	return &schema.ServerInfoResponse{Version: version.Version}, nil
}
func (c *c07cClient) StreamExportTx(ctx context.Context, opts ...grpc.CallOption) (schema.ImmuService_StreamExportTxClient, error) {
	return &c07cStream{ctx: ctx, env: c.env, rep: c.rep}, nil
}

type c07cStream struct {
	grpc.ClientStream
	ctx    context.Context
	env    *c07cEnv
	rep    int
	queue  []*schema.Chunk
	err    error
	broken bool
}

func (s *c07cStream) Context() context.Context { return s.ctx }
func (s *c07cStream) CloseSend() error         { s.broken = true; return nil }

// the server side of the stream, as seen by the real message sender
type c07cSrvSide struct{ s *c07cStream }

func (x c07cSrvSide) Send(c *schema.Chunk) error {
	cp := &schema.Chunk{Content: append([]byte(nil), c.Content...)}
	if c.Metadata != nil {
		cp.Metadata = map[string][]byte{}
		for k, v := range c.Metadata {
			cp.Metadata[k] = append([]byte(nil), v...)
		}
	}
	x.s.queue = append(x.s.queue, cp)
	return nil
}
func (x c07cSrvSide) RecvMsg(m interface{}) error { return nil }

func (s *c07cStream) Send(req *schema.ExportTxRequest) error {
	e := s.env
	r := e.r
	if s.broken {
		return io.EOF
	}
	r.Sched.Sleep(time.Duration(1+r.Intn(5)) * time.Millisecond) // round trip
	if !e.quiet && r.Pct(3) {
		s.broken = true
		r.Fault("connection-broken")
		if r.Pct(50) {
			e.refuse[s.rep] = r.Intn(4)
		}
		return status.Error(codes.Unavailable, "transport is closing")
	}
	// ---- what ImmuServer.exportTx does
	bs, mayID, mayAlh, err := e.prim.ExportTxByID(s.ctx, req)
	if rs := req.ReplicaState; rs != nil {
		e.logOnce(s.rep, "primary: replica %d asks for tx %d, reports committed %d precommitted %d (%x) -> %d bytes, may commit up to %d, err %v", s.rep, req.Tx, rs.CommittedTxID, rs.PrecommittedTxID, rs.PrecommittedAlh[:min(4, len(rs.PrecommittedAlh))], len(bs), mayID, err)
	}
	if err != nil {
		s.err = status.Error(codes.Unknown, err.Error())
		return nil
	}
	if req.ReplicaState != nil && req.ReplicaState.PrecommittedTxID > e.ackedTo[s.rep] {
		e.ackedTo[s.rep] = req.ReplicaState.PrecommittedTxID
	}
	var bCommitted [8]byte
	if st, err := e.prim.CurrentState(); err == nil {
		binary.BigEndian.PutUint64(bCommitted[:], st.TxId)
	}
	md := map[string][]byte{"committed-txid-bin": bCommitted[:]}
	if req.ReplicaState != nil {
		var b [8]byte
		binary.BigEndian.PutUint64(b[:], mayID)
		md["may-commit-up-to-txid-bin"] = b[:]
		md["may-commit-up-to-alh-bin"] = mayAlh[:]
	}
	// ---- the network
	if !e.quiet && e.skip && e.discard && e.sync && len(bs) > 0 && r.Pct(5) {
		bs = append([]byte(nil), bs...)
		bs[len(bs)-1-r.Intn(min(len(bs), 6))] ^= 1 << uint(r.Intn(8))
		e.altered[s.rep] = true
		e.restart[s.rep] = true
		r.Fault("exported-tx-altered")
		r.Logf("network: tx %d altered on its way to replica %d", req.Tx, s.rep)
	}
	if !e.quiet && r.Pct(2) {
		// the connection dies while the answer is on its way
		s.broken = true
		s.err = status.Error(codes.Unavailable, "transport is closing")
		r.Fault("connection-broken")
		return nil
	}
	buf := make([]byte, r.Pick(64, 4096, 64*1024))
	if err := stream.NewMsgSender(c07cSrvSide{s}, buf).Send(bytes.NewReader(bs), len(bs), md); err != nil {
		r.Trouble("framing the exported transaction failed: %v", err)
	}
	return nil
}

func (s *c07cStream) Recv() (*schema.Chunk, error) {
	if len(s.queue) > 0 {
		c := s.queue[0]
		s.queue = s.queue[1:]
		return c, nil
	}
	if s.err != nil {
		err := s.err
		s.err, s.broken = nil, true
		return nil, err
	}
	return nil, io.EOF
}

func c07AltBody(r *simcore.Run) {
	if r.Pct(50) {
		c07cBody(r)
	} else {
		c07bBody(r)
	}
}

func c07cBody(r *simcore.Run) {
	cfg := genStCfg(r, false)
	cfg.Comp = 0
	cfg.Prealloc = false
	cfg.Synced = true
	cfg.HdrVersion = 1
	cfg.MaxConc = 30
	cfg.FileSize = r.Pick(1<<20, 4096, 1024)
	cfg.IdxNodeSize = 4096
	cfg.sig(r)
	ctx, cancelRun := context.WithCancel(context.Background())
	r.OnStop(cancelRun) // writers waiting for acknowledgements give up as soon as the run is over

	nRep := 1 + r.Intn(2)
	env := &c07cEnv{r: r, sync: r.Pct(70), skip: r.Pct(40), refuse: make([]int, nRep), altered: make([]bool, nRep), discards: make([]int, nRep), ackedTo: make([]uint64, nRep)}
	env.discard = r.Pct(70)
	acks := 0
	if env.sync {
		acks = 1 + r.Intn(nRep)
	}
	r.Logf("cfg %+v sync=%v acks=%d replicas=%d skip=%v allowDiscard=%v (real TxReplicator)", cfg, env.sync, acks, nRep, env.skip, env.discard)
	prim, err := openDB(r, r.Dir("prim"), cfg, nil)
	if err != nil {
		r.Violation("open-new", "", "cannot create the primary: %v", err)
	}
	prim.AsReplica(false, env.sync, acks)
	env.prim = prim
	r.Defer(func() { prim.Close() })

	reps := make([]database.DB, nRep)
	env.reps = reps
	env.restart = make([]bool, nRep)
	txrs := make([]*replication.TxReplicator, nRep)
	repDirs := make([]string, nRep)
	for i := range repDirs {
		repDirs[i] = r.Dir(fmt.Sprintf("rep%d", i))
	}
	conc := r.Pick(1, 2, 4)
	prefetch := r.Pick(1, 2, 8)
	tornDown := false
	open := func(i int) {
		d, err := openDB(r, repDirs[i], cfg, nil)
		if err != nil {
			r.Violation("open-replica", "", "cannot open replica %d: %v", i, err)
		}
		d.AsReplica(true, env.sync, 0)
		reps[i] = d
		opts := replication.DefaultOptions().
			WithPrimaryDatabase("db").WithPrimaryHost("primary").WithPrimaryPort(3322).
			WithPrimaryUsername("immudb").WithPrimaryPassword("immudb").
			WithStreamChunkSize(r.Pick(4096, 64*1024)).
			WithPrefetchTxBufferSize(prefetch).
			WithReplicationCommitConcurrency(conc).
			WithAllowTxDiscarding(env.discard).
			WithSkipIntegrityCheck(env.skip).
			WithWaitForIndexing(r.Pct(20)).
			WithDelayer(c07cDelayer{}).
			WithClientFactoryFunc(func(string, int) client.ImmuClient { return &c07cClient{env: env, rep: i} })
		// a replica keeps its identity across restarts (the server persists it)
		uuid, _ := xid.FromBytes([]byte{0, 0, 0, 0, 0, 0, 0, 0, 0, 0, 7, byte(i + 1)})
		t, err := replication.NewTxReplicator(uuid, &c07cFlakyDB{DB: d, env: env}, opts, &c07cLogger{env: env, rep: i})
		if err != nil {
			r.Trouble("NewTxReplicator: %v", err)
		}
		if r.Failed() || tornDown {
			// the run is over and being wound down: nothing new is started
			return
		}
		txrs[i] = t
		if err := t.Start(); err != nil {
			r.Violation("replicator-start", "", "replicator of replica %d does not start: %v", i, err)
		}
		r.Yield("c07c-replicator-started") // its goroutines register before anything else starts
	}
	for i := range reps {
		open(i)
	}
	stopAll := func() {
		for i, t := range txrs {
			if t != nil {
				t.Stop()
				txrs[i] = nil
			}
		}
		r.Sched.Sleep(300 * time.Millisecond)
	}
	r.Defer(func() {
		for _, d := range reps {
			if d != nil {
				d.Close()
			}
		}
	})
	r.Defer(func() {
		// (cleanups run in reverse order: the replicators stop before the databases close)
		tornDown = true
		for _, t := range txrs {
			if t != nil {
				t.Stop()
			}
		}
		time.Sleep(time.Second)
	})
	r.Sched.SetSwitchPct(r.Pick(100, 50, 20))

	primAlh := func(id uint64) ([sha256.Size]byte, bool) {
		tx, err := prim.TxByID(ctx, &schema.TxRequest{Tx: id})
		if err != nil {
			return [sha256.Size]byte{}, false
		}
		return schema.TxHeaderFromProto(tx.Header).Alh(), true
	}
	checkReplica := func(i int, when string) {
		rs, err := reps[i].CurrentState()
		r.Must(err, "replica state")
		ps, err := prim.CurrentState()
		r.Must(err, "primary state")
		if rs.TxId > ps.TxId {
			r.Violation("replica-ahead", "", "%s: replica %d has committed tx %d, the primary only %d", when, i, rs.TxId, ps.TxId)
		}
		if rs.TxId > 0 {
			if h, ok := primAlh(rs.TxId); !ok || !bytes.Equal(h[:], rs.TxHash) {
				r.Violation("replica-diverged", "", "%s: replica %d committed tx %d with accumulated hash %x, the primary's is %x (known=%v)", when, i, rs.TxId, rs.TxHash, h, ok)
			}
		}
	}

	restarting := make([]bool, nRep)
	busy := make([]int, nRep)
	writersDone := false
	nWriters, per := 1+r.Intn(2), 2+r.Intn(6)
	var tasks []*simcore.Task
	seq := 0
	for w := 0; w < nWriters; w++ {
		name := fmt.Sprintf("w%d", w)
		tasks = append(tasks, r.Sched.Go(name, func() {
			for i := 0; i < per; i++ {
				r.Sched.Sleep(time.Duration(r.Intn(30)) * time.Millisecond)
				seq++
				k, v := fmt.Sprintf("k%d", r.Intn(4)), fmt.Sprintf("v%d", seq)
				wctx, cancel := context.WithTimeout(ctx, 120*time.Second)
				hdr, err := prim.Set(wctx, &schema.SetRequest{KVs: []*schema.KeyValue{{Key: []byte(k), Value: []byte(v)}}})
				cancel()
				if err != nil {
					if env.sync && env.skip && !env.discard && anyTrue(env.altered) {
						return
					}
					r.Violation("primary-write", "", "%s: Set on the primary failed: %v", name, err)
				}
				if !env.sync {
					continue
				}
				holders, unknown := 0, false
				for j := range reps {
					if restarting[j] {
						unknown = true
						continue
					}
					busy[j]++
					rs, err := reps[j].CurrentState()
					if err != nil || rs.PrecommittedTxId < hdr.Id {
						busy[j]--
						continue
					}
					holders++
					if h, ok := primAlh(hdr.Id); ok {
						if rt, err := reps[j].TxByID(ctx, &schema.TxRequest{Tx: hdr.Id}); err == nil && schema.TxHeaderFromProto(rt.Header).Alh() != h {
							r.Violation("replica-diverged", "", "replica %d holds a different tx %d than the primary", j, hdr.Id)
						}
						if rs.PrecommittedTxId == hdr.Id && !bytes.Equal(rs.PrecommittedTxHash, h[:]) {
							holders--
						}
					}
					busy[j]--
				}
				r.Logf("%s: tx %d reported committed, held by %d replica(s), %d required", name, hdr.Id, holders, acks)
				if holders < acks && !unknown && env.dropped {
					r.Finding("committed-without-acks", "C07:discard-drops-acknowledged-precommits", "the primary reported tx %d committed while %d replica(s) hold it (%d required): a replica that had reported it as durably precommitted discarded it together with a diverged later transaction (altered in transit, accepted because integrity checks are skipped) and had not fetched it again yet", hdr.Id, holders, acks)
					r.EndRun()
				}
				if holders < acks && !unknown {
					r.Violation("committed-without-acks", "", "the primary reported tx %d committed while %d replica(s) durably hold it; %d acknowledgement(s) are required", hdr.Id, holders, acks)
				}
			}
		}))
	}
	restartReplica := func(i int) {
		restarting[i] = true
		if err := txrs[i].Stop(); err != nil && !errors.Is(err, replication.ErrAlreadyStopped) {
			r.Violation("replicator-stop", "", "stopping the replicator of replica %d failed: %v", i, err)
		}
		r.Sched.Sleep(200 * time.Millisecond)
		before, _ := reps[i].CurrentState()
		if err := reps[i].Close(); err != nil {
			r.Violation("close", "", "closing replica %d failed: %v", i, err)
		}
		open(i)
		restarting[i] = false
		r.Fault("replica-restart")
		after, _ := reps[i].CurrentState()
		r.Logf("monitor: replica %d restarted: committed %d -> %d, precommitted %d -> %d", i, before.TxId, after.TxId, before.PrecommittedTxId, after.PrecommittedTxId)
		if after.TxId >= before.TxId && (after.PrecommittedTxId < before.PrecommittedTxId || (after.PrecommittedTxId == before.PrecommittedTxId && !bytes.Equal(after.PrecommittedTxHash, before.PrecommittedTxHash))) && env.discards[i] > 0 {
			r.Finding("replica-lost-acknowledged", "C07:discarded-precommits-reloaded-at-restart", "replica %d held durably precommitted tx %d before a clean restart and %d after it: earlier its replicator had discarded precommitted transactions, which stay in the tx log in front of the transactions fetched afterwards; the recovery at open reloads the discarded ones and drops the later, acknowledged ones (same id with another accumulated hash: %v)", i, before.PrecommittedTxId, after.PrecommittedTxId, after.PrecommittedTxId == before.PrecommittedTxId)
			r.EndRun()
		}
		if after.TxId < before.TxId || after.PrecommittedTxId < before.PrecommittedTxId {
			r.Violation("replica-lost-acknowledged", "", "replica %d held committed tx %d / durably precommitted tx %d before a clean restart and holds %d / %d after it", i, before.TxId, before.PrecommittedTxId, after.TxId, after.PrecommittedTxId)
		}
		checkReplica(i, "after restart")
	}
	// a monitor: invariants at arbitrary instants, replica restarts
	monitor := r.Sched.Go("monitor", func() {
		seen := make([]int, nRep)
		for !writersDone {
			r.Sched.Sleep(time.Duration(5+r.Intn(40)) * time.Millisecond)
			i := r.Intn(nRep)
			if env.discards[i] > seen[i] {
				seen[i] = env.discards[i]
				r.Probe("c07c-replicator-discarded-precommitted")
				// what the replicator reported as durably precommitted before may be gone now
				if st, err := reps[i].CurrentState(); err == nil && st.PrecommittedTxId < env.ackedTo[i] {
					env.dropped = true
				}
				env.dropped = env.dropped || env.altered[i]
			}
			if busy[i] > 0 {
				continue
			}
			checkReplica(i, "monitor")
			if r.Pct(8) || env.restart[i] {
				env.restart[i] = false
				restartReplica(i)
			}
		}
	})
	for _, t := range tasks {
		t.Join()
	}
	writersDone = true
	monitor.Join()
	// faults stop: bounded liveness
	env.quiet = true
	for i := range reps {
		if env.restart[i] {
			env.restart[i] = false
			restartReplica(i)
		}
	}
	ps, _ := prim.CurrentState()
	deadline := 60 * time.Second
	waited := time.Duration(0)
	caught := func(i int) bool {
		rs, err := reps[i].CurrentState()
		return err == nil && rs.TxId == ps.TxId
	}
	for waited < deadline {
		all := true
		for i := range reps {
			if !caught(i) {
				all = false
			}
		}
		if all {
			break
		}
		r.Sched.Sleep(100 * time.Millisecond)
		waited += 100 * time.Millisecond
	}
	for i := range reps {
		if caught(i) {
			continue
		}
		rs, _ := reps[i].CurrentState()
		rerr := txrs[i].Error()
		if rerr != nil && env.altered[i] {
			// an altered transaction got in and the replicator gave up (discarding not allowed, or the
			// committed state itself diverged): reported by the replicator, not silently accepted
			r.Probe("c07c-replicator-stopped-on-divergence")
			checkStopped := strings.Contains(rerr.Error(), "diverged")
			if !checkStopped {
				r.Violation("replicator-error", "", "replicator of replica %d stopped with %v", i, rerr)
			}
			continue
		}
		if env.discards[i] > 0 || env.altered[i] {
			// the recorded discard findings (layer B) make a replica refuse what it is sent afterwards
			if env.discards[i] > 0 {
				r.Finding("replica-behind", "C07:discarded-precommits-reloaded-at-restart", "replica %d stays at committed tx %d (precommitted %d) of the primary's %d although the faults stopped %v ago: its replicator discarded precommitted transactions earlier", i, rs.TxId, rs.PrecommittedTxId, ps.TxId, waited)
				r.EndRun()
			}
		}
		stopAll()
		r.Violation("replica-behind", "", "replica %d stays at committed tx %d (precommitted %d) of the primary's %d although writers are done and the faults stopped %v (simulated) ago; replicator error: %v", i, rs.TxId, rs.PrecommittedTxId, ps.TxId, waited, rerr)
	}
	stopAll()
	for i := range reps {
		if !caught(i) {
			continue
		}
		checkReplica(i, "final")
		for id := uint64(1); id <= ps.TxId; id++ {
			h, _ := primAlh(id)
			rt, err := reps[i].TxByID(ctx, &schema.TxRequest{Tx: id})
			if err != nil || schema.TxHeaderFromProto(rt.Header).Alh() != h {
				r.Violation("replica-diverged", "", "final: tx %d on replica %d differs from the primary's (%v)", id, i, err)
			}
		}
		for k := 0; k < 4; k++ {
			key := []byte(fmt.Sprintf("k%d", k))
			pe, perr := prim.Get(ctx, &schema.KeyRequest{Key: key})
			re, rerr := reps[i].Get(ctx, &schema.KeyRequest{Key: key})
			if (perr == nil) != (rerr == nil) || (perr == nil && (!bytes.Equal(pe.Value, re.Value) || pe.Tx != re.Tx || pe.Revision != re.Revision)) {
				r.Violation("replica-query", "", "final: Get(%s) on replica %d answers (%v, %v), the primary (%v, %v)", key, i, re, rerr, pe, perr)
			}
		}
	}
	r.Sig("c07c", nRep, acks, env.sync, env.skip, env.discard, ps.TxId)
	r.Sample(map[string]interface{}{"layer": "real TxReplicator over a stub transport", "replicas": nRep, "sync": env.sync, "acks_required": acks, "primary_txs": ps.TxId, "integrity_checks_skipped_on_replica": env.skip, "allow_tx_discarding": env.discard, "commit_concurrency": conc, "prefetch_buffer": prefetch})
}

func anyTrue(b []bool) bool {
	for _, x := range b {
		if x {
			return true
		}
	}
	return false
}
