package checks

import (
	"context"
	"errors"
	"fmt"

	"github.com/codenotary/immudb/embedded/store"
	"github.com/codenotary/immudb/embedded/tbtree"

	"verifsim/simcore"
)

// C02 — committed history is append-only and immutable.
// C04 — reads reflect exactly the committed log (index agrees with history).
//
// Both drive the same simulated store workload (concurrent committers +
// maintenance + clean restarts under the scheduler); they differ in the oracle
// evaluated at every checkpoint.

func init() {
	register(&simcore.Check{ID: "C02", Bubble: true, Liveness: true, Body: func(r *simcore.Run) { storeWorkloadBody(r, "C02") }})
	register(&simcore.Check{ID: "C04", Bubble: true, Liveness: true, Body: func(r *simcore.Run) { storeWorkloadBody(r, "C04") }})
}

type swOpts struct {
	prop string
}

func storeWorkloadBody(r *simcore.Run, prop string) {
	cfg := genStCfg(r, false)
	if prop == "C04" && r.Pct(50) {
		// bias towards the indexing knobs
		cfg.IdxBulk = r.Pick(2, 3, 4, 8)
		cfg.IdxFlushThld = r.Pick(1, 2, 4, 16)
		if cfg.IdxSyncThld < cfg.IdxFlushThld {
			cfg.IdxSyncThld = cfg.IdxFlushThld
		}
		cfg.IdxCache = r.Pick(1, 2, 16)
	}
	cfg.sig(r)
	dir := r.Dir("st-0")
	r.Disk.Attach(dir)
	e := newStoreEnv(r, cfg, dir)
	if prop == "C04" && r.Pct(40) {
		// grow multi-level index trees, flush them while small and compact them
		e.wideKeys = r.Pick(30, 60, 120)
		e.cfg.IdxNodeSize = 512
		e.cfg.IdxFlushThld = r.Pick(1, 4, 16)
		if e.cfg.IdxSyncThld < e.cfg.IdxFlushThld {
			e.cfg.IdxSyncThld = e.cfg.IdxFlushThld
		}
		e.cfg.IdxCompactThld = 1
		e.compactBias = true
		r.Sig("wide", e.wideKeys)
	}
	if err := e.open(); err != nil {
		r.Violation("open-new", "", "cannot open a new store with %+v: %v", cfg, err)
	}
	r.Logf("cfg %+v", cfg)
	r.Sched.SetSwitchPct(r.Pick(100, 50, 20, 5))
	if r.Pct(50) {
		r.Sched.EnablePoint("vlog-held")
	}
	cycles := 1 + r.Intn(3)
	var trace []string
	for cyc := 0; cyc < cycles; cyc++ {
		nTasks := 1 + r.Intn(4)
		per := 1 + r.Intn(6)
		var tasks []*simcore.Task
		for t := 0; t < nTasks; t++ {
			name := fmt.Sprintf("c%d", t)
			tasks = append(tasks, r.Sched.Go(name, func() { e.committer(name, per) }))
		}
		if r.Pct(70) {
			tasks = append(tasks, r.Sched.Go("maint", func() { e.maintenance(2 + r.Intn(5)) }))
		}
		for _, t := range tasks {
			t.Join()
		}
		what := fmt.Sprintf("cycle %d", cyc)
		n := e.verifyHistory(what, true)
		if prop == "C04" {
			e.verifyIndex(what, n)
		} else {
			e.verifyExports(what, n)
			e.verifyProofs(what, n, e.sampleStates(n, 6))
		}
		trace = append(trace, fmt.Sprintf("cycle %d: %d tasks x %d tx, committed %d", cyc, nTasks, per, n))
		if cyc < cycles-1 || r.Pct(50) {
			if err := e.st.Close(); err != nil {
				r.Violation("close", "", "Close failed: %v", err)
			}
			if err := e.open(); err != nil {
				r.Violation("reopen", "", "reopen after clean close failed: %v", err)
			}
			r.Probe("store-clean-restart")
			n2 := e.verifyHistory(what+" reopened", true)
			if n2 != n {
				r.Violation("dense-ids", "", "%s: committed frontier changed across clean restart: %d -> %d", what, n, n2)
			}
			if prop == "C04" {
				e.verifyIndex(what+" reopened", n2)
			}
		}
	}
	if err := e.st.Close(); err != nil {
		r.Violation("close", "", "final Close failed: %v", err)
	}
	r.Sample(map[string]interface{}{"config": cfg, "cycles": trace})
}

func (e *storeEnv) sampleStates(n uint64, k int) []uint64 {
	var out []uint64
	if n <= uint64(k) {
		for i := uint64(1); i <= n; i++ {
			out = append(out, i)
		}
		return out
	}
	for i := 0; i < k; i++ {
		out = append(out, 1+uint64(e.r.Intn(int(n))))
	}
	return out
}

// verifyExports: the exported form of a committed transaction never changes.
func (e *storeEnv) verifyExports(what string, n uint64) {
	tx := store.NewTx(16, 64)
	for id := uint64(1); id <= n; id++ {
		if id < e.truncatedBefore {
			continue
		}
		var bs []byte
		var err error
		pv, stack := e.r.Catch(func() { bs, err = e.st.ExportTx(id, false, false, tx) })
		if pv != nil {
			e.r.Violation("read-panic", "", "%s: ExportTx(%d) panicked: %v\n%s", what, id, pv, stack)
		}
		if err != nil {
			e.r.Violation("export", "", "%s: ExportTx(%d) failed: %v", what, id, err)
		}
		e.mu.Lock()
		lt := e.led[id]
		e.mu.Unlock()
		if lt == nil {
			continue
		}
		if lt.Export == nil {
			lt.Export = append([]byte(nil), bs...)
		} else if string(lt.Export) != string(bs) {
			e.r.Violation("immutable-export", "", "%s: exported bytes of tx %d changed", what, id)
		}
	}
}

func (e *storeEnv) committer(name string, count int) {
	r := e.r
	ctx := context.Background()
	for i := 0; i < count; i++ {
		r.Yield("committer-op")
		kind := r.Intn(12)
		var tx *store.OngoingTx
		var err error
		if kind == 1 {
			tx, err = e.st.NewWriteOnlyTx(ctx)
		} else {
			tx, err = e.st.NewTx(ctx, store.DefaultTxOptions())
		}
		if err != nil {
			if errors.Is(err, store.ErrMaxConcurrencyLimitExceeded) || errors.Is(err, tbtree.ErrorToManyActiveSnapshots) {
				continue
			}
			r.Violation("newtx", "", "%s: NewTx failed: %v", name, err)
		}
		if kind == 2 {
			// read before writing (may conflict)
			k := []byte(stKeys[r.Intn(len(stKeys))])
			tx.Get(ctx, k)
			r.Yield("committer-after-get")
		}
		maxE, maxV := 4, 300
		if e.wideKeys > 0 {
			maxE, maxV = 12, 40
		}
		entries, err := e.genWrites(name, tx, maxE, maxV)
		if err != nil {
			tx.Cancel()
			r.Violation("tx-set", "", "%s: Set failed: %v", name, err)
		}
		if kind == 3 && len(entries) > 0 {
			k := []byte(stKeys[r.Intn(len(stKeys))])
			switch r.Intn(3) {
			case 0:
				tx.AddPrecondition(&store.PreconditionKeyMustExist{Key: k})
			case 1:
				tx.AddPrecondition(&store.PreconditionKeyMustNotExist{Key: k})
			default:
				tx.AddPrecondition(&store.PreconditionKeyNotModifiedAfterTx{Key: k, TxID: 1 + uint64(r.Intn(6))})
			}
		}
		if kind == 4 {
			tx.Cancel()
			continue
		}
		if kind == 5 && e.cfg.HdrVersion == 1 {
			md := store.NewTxMetadata()
			md.WithExtra([]byte(fmt.Sprintf("x-%s-%d", name, i)))
			tx.WithMetadata(md)
		}
		cctx := ctx
		if kind == 6 {
			c2, cancel := context.WithCancel(ctx)
			cancel()
			cctx = c2
		}
		if e.starvePct > 0 && r.Pct(e.starvePct) {
			// hold this committer somewhere inside its commit (typically after its
			// values were written and before its id is assigned)
			r.Sched.StarveSelf(r.Pick(20, 60, 200, 600))
			r.Probe("committer-starved")
		}
		var hdr *store.TxHeader
		if kind == 7 {
			hdr, err = tx.AsyncCommit(cctx)
		} else {
			hdr, err = tx.Commit(cctx)
		}
		if err != nil {
			if hdr != nil {
				// committed, but waiting for indexing failed
				e.ack(hdr, entries)
				continue
			}
			e.failed(entries, err)
			if errors.Is(err, store.ErrAlreadyClosed) {
				r.Violation("commit", "", "%s: commit on an open store returned %v", name, err)
			}
			continue
		}
		e.ack(hdr, entries)
		r.Logf("%s: committed tx %d (%d entries)", name, hdr.ID, len(entries))
	}
}

func (e *storeEnv) maintenance(count int) {
	r := e.r
	for i := 0; i < count; i++ {
		r.Yield("maint-op")
		op := r.Intn(6)
		if e.compactBias && r.Pct(30) {
			op = 1
		}
		switch op {
		case 0:
			err := e.st.FlushIndexes(float32(r.Pick(0, 0, 50, 100)), r.Bool())
			r.Logf("maint: flush indexes: %v", err)
			r.Probe("maint-flush")
		case 1:
			err := e.st.CompactIndexes()
			r.Logf("maint: compact indexes: %v", err)
			if err == nil {
				r.Probe("maint-compaction-done")
			}
		case 2:
			if err := e.st.Sync(); err != nil {
				r.Violation("sync", "", "Sync failed: %v", err)
			}
		case 3, 4:
			// re-read an acknowledged transaction while writers are active
			e.mu.Lock()
			max := e.maxAcked
			e.mu.Unlock()
			if max == 0 {
				continue
			}
			id := 1 + uint64(r.Intn(int(max)))
			e.mu.Lock()
			lt := e.led[id]
			e.mu.Unlock()
			if lt == nil {
				continue
			}
			tx := store.NewTx(16, 64)
			if err := e.st.ReadTx(id, false, tx); err != nil {
				r.Violation("read-tx", "", "ReadTx(%d) of an acknowledged tx failed during the workload: %v", id, err)
			}
			e.compareTx("during workload", lt, tx)
		default:
			n, _ := e.st.CommittedAlh()
			if n > 0 {
				e.verifyProofs("during workload", n, e.sampleStates(n, 2))
			}
		}
	}
}
