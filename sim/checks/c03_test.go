package checks

import (
	"context"
	"errors"
	"fmt"
	"os"
	"os/exec"
	"time"

	"github.com/codenotary/immudb/embedded/appendable/singleapp"
	"github.com/codenotary/immudb/embedded/store"

	"verifsim/simcore"
)

// C03 — crash durability: acknowledged commits survive; recovery is a
// consistent prefix.
//
// Stage 1 (record): a synced store runs a concurrent workload under the
// scheduler while the shadow disk records every storage operation and an
// "ack" marker when a commit returns. Stage 2 (enumerate): for crash points k
// of the recorded log and several persistence choices per k, the crash image
// is materialised and the real store is opened on it.

func init() {
	register(&simcore.Check{ID: "C03", Bubble: true, Liveness: true, Body: c03Body})
}

func c03Body(r *simcore.Run) {
	cfg := genStCfg(r, true)
	// bias towards configurations in which hash-tree and index syncs, file
	// rotation and a precommitted backlog happen inside a short run
	if r.Pct(70) {
		cfg.FileSize = r.Pick(256, 512, 1024, 4096)
	}
	if r.Pct(60) {
		cfg.AhtSyncThld = r.Pick(1, 2, 3, 8)
	}
	if r.Pct(60) {
		cfg.IdxFlushThld = r.Pick(1, 2, 4)
		cfg.IdxSyncThld = r.Pick(1, 4, 8)
		if cfg.IdxSyncThld < cfg.IdxFlushThld {
			cfg.IdxSyncThld = cfg.IdxFlushThld
		}
	}
	cfg.Prealloc = false
	// compressed value logs are left to C17/C09: a compressed record whose
	// bytes never reached the disk decodes to an arbitrary length
	cfg.Comp = 0
	if os.Getenv("VERIF_C03_BIGFILES") != "" {
		cfg.FileSize = 1 << 20
	}
	cfg.sig(r)
	r.Logf("cfg %+v", cfg)
	dir := r.Dir("st-0")
	r.Disk.Attach(dir)
	e := newStoreEnv(r, cfg, dir)
	e.markAcks = true
	// a quarter of the runs: the store commits only what it is allowed to (the mode of a replica, or of
	// a primary with synchronous replication); a task grants the allowances after the fact
	ext := r.Pct(25)
	if ext {
		e.optMod = func(o *store.Options) { o.WithExternalCommitAllowance(true) }
	}
	if err := e.open(); err != nil {
		r.Violation("open-new", "", "cannot open a new store with %+v: %v", cfg, err)
	}
	r.Sched.SetSwitchPct(r.Pick(100, 50, 20))
	if r.Pct(50) {
		r.Sched.EnablePoint("vlog-held")
	}
	nTasks := 1 + r.Intn(4)
	per := 1 + r.Intn(6)
	var tasks []*simcore.Task
	for t := 0; t < nTasks; t++ {
		name := fmt.Sprintf("c%d", t)
		tasks = append(tasks, r.Sched.Go(name, func() { e.committer(name, per) }))
	}
	if r.Pct(60) {
		tasks = append(tasks, r.Sched.Go("maint", func() { e.maintenance(1 + r.Intn(4)) }))
	}
	committersDone := false
	var allower *simcore.Task
	if ext {
		allower = r.Sched.Go("allower", func() {
			for {
				r.Sched.Sleep(time.Duration(1+r.Intn(20)) * time.Millisecond)
				pid := e.st.LastPrecommittedTxID()
				cid := e.st.LastCommittedTxID()
				if pid > cid {
					upto := cid + 1 + uint64(r.Intn(int(pid-cid)))
					if err := e.st.AllowCommitUpto(upto); err != nil && !errors.Is(err, store.ErrAlreadyClosed) {
						r.Violation("allow-commit", "", "AllowCommitUpto(%d) with committed %d, precommitted %d failed: %v", upto, cid, pid, err)
					}
					r.Probe("c03-commit-allowance-granted")
				} else if committersDone {
					return
				}
			}
		})
	}
	for _, t := range tasks {
		t.Join()
	}
	committersDone = true
	if allower != nil {
		allower.Join()
	}
	n := e.verifyHistory("before crash", true)
	if r.Bool() {
		if err := e.st.Close(); err != nil {
			r.Violation("close", "", "Close failed: %v", err)
		}
	}
	tr := r.Disk.Snapshot()
	nops := len(tr.Ops)
	if os.Getenv("VERIF_DUMP_OPS") != "" {
		for i, op := range tr.Ops {
			r.Logf("op %d: %s %s off=%d len=%d %s%d", i, op.Kind, op.Path, op.Off, len(op.Data), op.Tag, op.Val)
		}
	}
	r.Disk.Detach()
	e.st.Close()

	nImages := int(r.Param("images", 0))
	if nImages == 0 {
		nImages = 10
		if r.Tier == "thorough" {
			nImages = 40
		}
	}
	for i := 0; i < nImages && !r.Failed(); i++ {
		k := 1 + r.IntnS("crash", nops)
		mode := simcore.ImageMode(r.IntnS("crash", int(simcore.NumImageModes)))
		c03CheckImage(r, e, tr, k, mode, i, 1, 0)
		r.Yield("c03-image")
	}
	r.Sample(map[string]interface{}{"config": cfg, "tasks": nTasks, "tx_per_task": per, "committed": n, "storage_ops": nops, "images": nImages})
}

// c03CheckImage builds the crash image at operation k and runs the recovery oracle.
func c03CheckImage(r *simcore.Run, e *storeEnv, tr *simcore.Trace, k int, mode simcore.ImageMode, slot int, depth int, carryAcked uint64) {
	dst := r.Dir(fmt.Sprintf("img-%d-%d", depth, slot%3))
	st, err := tr.BuildImage(k, mode, func(n int) int { return r.IntnS("crash", n) }, dst)
	r.Must(err, "build image")
	if keep := os.Getenv("VERIF_KEEP_IMAGES"); keep != "" {
		exec.Command("cp", "-r", dst, fmt.Sprintf("%s/img-k%d-d%d", keep, k, depth)).Run()
	}
	r.Fault("crash-" + mode.String())
	if st.Torn > 0 {
		r.Fault("torn-write")
	}
	if st.Dropped > 0 {
		r.Fault("lost-unsynced-write")
	}
	if st.AbsentCreated > 0 {
		r.Fault("lost-unsynced-create")
	}
	if depth > 1 {
		r.Fault("crash-during-recovery")
	}
	maxAcked := carryAcked
	for _, id := range tr.MarksBefore("ack", k) {
		if uint64(id) > maxAcked {
			maxAcked = uint64(id)
		}
	}
	what := fmt.Sprintf("crash at op %d/%d (%s, depth %d, %+v)", k, len(tr.Ops), mode, depth, st)
	r.Logf("%s: acknowledged up to %d", what, maxAcked)
	r.Sig("img", mode, st.Dropped > 0, st.Torn > 0, maxAcked)

	r.Disk.Attach(dst)
	defer r.Disk.Detach()
	e2 := newStoreEnv(r, e.cfg, dst)
	e2.led, e2.attempts, e2.maxAcked = e.led, e.attempts, e.maxAcked
	e2.crashDepth = depth
	e2.lossyFirstCrash = e.lossyFirstCrash
	e2.valueOptionalFrom = maxAcked + 1
	e2.optLo, e2.optHi = e.optLo, e.optHi
	if err := e2.open(); err != nil {
		if p, inflight := tr.CreationInFlight(k); inflight && errors.Is(err, singleapp.ErrCorruptedMetadata) {
			r.Finding("reopen-after-crash", "C03:crash-during-file-creation", "%s: crash while %s was being created; the store cannot be reopened: %v", what, p, err)
			return
		}
		r.Violation("reopen-after-crash", "", "%s: the store cannot be reopened: %v", what, err)
	}
	// recovered precommitted transactions are committed by the syncer in the
	// background: settle them first so that the frontier is stable
	if err := e2.st.Sync(); err != nil {
		r.Violation("reopen-after-crash", "", "%s: Sync on the recovered store failed: %v", what, err)
	}
	n := e2.verifyHistoryFrom(what, true, maxAcked)
	if pn := e2.st.LastPrecommittedTxID(); pn != n {
		r.Violation("reopen-after-crash", "", "%s: after Sync the committed frontier is %d but %d transactions are precommitted", what, n, pn)
	}
	// clients holding a state acknowledged before the crash can still verify
	var states []uint64
	for id := uint64(1); id <= maxAcked; id++ {
		states = append(states, id)
	}
	if len(states) > 8 {
		states = append(states[:4], states[len(states)-4:]...)
	}
	e2.verifyProofs(what, n, states)
	e2.verifyIndex(what, n)

	// the recovered store accepts new commits
	ctx := context.Background()
	e2.led = map[uint64]*ledTx{}
	for id, lt := range e.led {
		if id <= n {
			e2.led[id] = lt
		}
	}
	e2.maxAcked = maxAcked
	e2.markAcks = true
	tx, err := e2.st.NewTx(ctx, store.DefaultTxOptions())
	if err != nil {
		r.Violation("commit-after-recovery", "", "%s: NewTx failed: %v", what, err)
	}
	val := []byte(fmt.Sprintf("after-recovery-%d", k))
	tx.Set([]byte("k0"), nil, val)
	hdr, err := tx.Commit(ctx)
	if err != nil {
		r.Violation("commit-after-recovery", "", "%s: a fresh commit failed: %v", what, err)
	}
	if hdr.ID != n+1 {
		r.Violation("dense-ids", "", "%s: fresh commit got id %d after recovering %d transactions", what, hdr.ID, n)
	}
	e2.ack(hdr, []ledEntry{{Key: []byte("k0"), Value: val}})
	if n2 := e2.verifyHistory(what+" after fresh commit", true); n2 != hdr.ID {
		r.Violation("dense-ids", "", "%s: frontier is %d after a fresh commit with id %d", what, n2, hdr.ID)
	}
	e2.verifyIndex(what+" after fresh commit", hdr.ID)
	e2.verifyProofs(what+" after fresh commit", hdr.ID, states)

	// a second crash while (or right after) recovering
	var tr2 *simcore.Trace
	if depth < 2 && r.IntnS("crash", 4) == 0 {
		tr2 = r.Disk.Snapshot()
	}
	if err := e2.st.Close(); err != nil {
		r.Violation("close", "", "%s: Close of the recovered store failed: %v", what, err)
	}
	if tr2 != nil && len(tr2.Ops) > 0 {
		// the fresh commit of this incarnation is not in the ledger: only crash
		// points before it was acknowledged are meaningful for the ledger check
		k2 := 1 + r.IntnS("crash", len(tr2.Ops))
		mode2 := simcore.ImageMode(r.IntnS("crash", int(simcore.NumImageModes)))
		e3 := newStoreEnv(r, e.cfg, "")
		e3.led, e3.maxAcked, e3.attempts = e2.led, e2.maxAcked, e.attempts
		e3.optLo, e3.optHi = e2.valueOptionalFrom, n
		e3.lossyFirstCrash = e.lossyFirstCrash || st.Dropped > 0 || st.Torn > 0
		c03CheckImage(r, e3, tr2, k2, mode2, slot, depth+1, maxAcked)
	}
}
